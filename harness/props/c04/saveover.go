package c04

import (
	"bytes"
	"fmt"
	"io"

	"github.com/EliCDavis/polyform/formats/ply"
	"github.com/EliCDavis/polyform/modeling"

	"verif/harness/core"
)

// ply.Save over an existing file: every sequence of 1..3 saves of three clouds/meshes of different
// sizes to one path, in each encoding; the file must equal the in-memory write of the last.

const clSave = "writing a mesh to a file yields exactly the bytes of that mesh (whatever the path held before)"

func (k checker) saveOver(seq []int, fi int) {
	formats := []ply.Format{ply.ASCII, ply.BinaryLittleEndian, ply.BinaryBigEndian}
	names := []string{"ascii", "binary_little_endian", "binary_big_endian"}
	cs := Case{Scope: "save-over", SaveSeq: seq, SaveFormat: fi + 1}
	cfgs := []MeshCfg{
		{Gen: "strip", N: 9, Attrs: []AttrCfg{{"Position", 3, "gen"}, {"Normal", 3, "gen"}, {"Color", 3, "unit"}}},
		{Gen: "cloud", N: 4, Attrs: []AttrCfg{{"Position", 3, "gen"}}},
		{Topo: "tri", V: 3, Idx: []int{0, 1, 2}, Attrs: []AttrCfg{{"Position", 3, "gen"}, {"TexCoord", 2, "gen"}}},
	}
	mesh := func(it int) modeling.Mesh { return cfgs[it].resolved().Build() }
	scope := "files/save-sequences/" + names[fi]
	k.c.Nontrivial("save-over", fmt.Sprint(seq), fi)
	var got []byte
	var err error
	o := core.Guard(func() {
		got, err = core.SaveOver(".ply", seq, func(path string, it int) error { return ply.Save(path, mesh(it), formats[fi]) })
	})
	class := fmt.Sprintf("save-over/%s/saves=%d", names[fi], len(seq))
	fail := func(detail string) {
		k.c.Violate(core.Violation{Site: "ply.Save", Clause: clSave, Class: class, Detail: detail, Case: cs})
	}
	if o.Panicked || err != nil {
		k.c.Eval(scope, "save-failure")
		fail(fmt.Sprintf("saves %v: %s %v", seq, o.Msg, err))
		return
	}
	var want bytes.Buffer
	if err := ply.Write(&want, mesh(seq[len(seq)-1]), formats[fi]); err != nil {
		k.c.HarnessError("in-memory write failed: %v", err)
		return
	}
	if !bytes.Equal(got, want.Bytes()) {
		k.c.Eval(scope, "mismatch")
		fail(fmt.Sprintf("after the saves %v to one path the file holds %d bytes, the last mesh alone writes %d (or other content)", seq, len(got), want.Len()))
		return
	}
	k.c.Eval(scope, "ok")
}

func (k checker) saveSequences(next func() bool) {
	for fi := 0; fi < 3; fi++ {
		for _, seq := range core.SaveSequences(3) {
			if next() {
				k.saveOver(seq, fi)
			}
		}
	}
	for fi := 0; fi < 3; fi++ {
		if next() {
			k.afterFailedWrite(fi)
		}
	}
	k.c.Bound("F.save_sequences", "every sequence of 1..3 ply.Save calls over a 9-face strip, a 4-point cloud and a textured triangle to one path, in each encoding; the file must equal the in-memory write of the last")
}

// a write after a failed write (core.AfterFailedWrite), per encoding
func (k checker) afterFailedWrite(fi int) {
	formats := []ply.Format{ply.ASCII, ply.BinaryLittleEndian, ply.BinaryBigEndian}
	names := []string{"ascii", "binary_little_endian", "binary_big_endian"}
	cs := Case{Scope: "after-failed-write", SaveFormat: -(fi + 1)}
	cfgs := []MeshCfg{
		{Gen: "strip", N: 300, Attrs: []AttrCfg{{"Position", 3, "gen"}, {"Normal", 3, "gen"}, {"Color", 3, "unit"}}},
		{Topo: "tri", V: 3, Idx: []int{0, 1, 2}, Attrs: []AttrCfg{{"Position", 3, "gen"}, {"TexCoord", 2, "gen"}}},
	}
	k.c.Nontrivial("after-failed-write", fi)
	why := core.AfterFailedWrite(core.FailLimits, func(it int, w io.Writer) error { return ply.Write(w, cfgs[it].resolved().Build(), formats[fi]) })
	scope := "files/after-failed-write/" + names[fi]
	if why != "" {
		k.c.Eval(scope, "mismatch")
		k.c.Violate(core.Violation{Site: "ply.Write", Clause: "writing a mesh yields exactly the bytes of that mesh (also right after an earlier write failed)", Class: "after-failed-write/" + names[fi], Detail: why, Case: cs})
		return
	}
	k.c.Eval(scope, "ok")
}
