package c04

import (
	"bytes"
	"fmt"
	"io"

	"github.com/EliCDavis/polyform/formats/ply"
	"github.com/EliCDavis/polyform/modeling"

	"verif/harness/core"
	"verif/harness/meshlib"
)

func meshlibHash(m modeling.Mesh) uint64 { return meshlib.QuickHash(m) }

// ply.Save over an existing file: every sequence of 1..3 saves of three clouds/meshes of different
// sizes to one path, in each encoding; the file must equal the in-memory write of the last.

const clSave = "writing a mesh to a file yields exactly the bytes of that mesh (whatever the path held before)"

func (k checker) saveOver(seq []int, fi int) {
	formats := []ply.Format{ply.ASCII, ply.BinaryLittleEndian, ply.BinaryBigEndian}
	names := []string{"ascii", "binary_little_endian", "binary_big_endian"}
	cs := Case{Scope: "save-over", SaveSeq: seq, SaveFormat: fi + 1}
	cfgs := []MeshCfg{
		{Gen: "strip", N: 9, Attrs: []AttrCfg{{"Position", 3, "gen"}, {"Normal", 3, "gen"}, {"Color", 3, "unit"}}},
		{Gen: "cloud", N: 4, Attrs: []AttrCfg{{"Position", 3, "gen"}}},
		{Topo: "tri", V: 3, Idx: []int{0, 1, 2}, Attrs: []AttrCfg{{"Position", 3, "gen"}, {"TexCoord", 2, "gen"}}},
	}
	mesh := func(it int) modeling.Mesh { return cfgs[it].resolved().Build() }
	scope := "files/save-sequences/" + names[fi]
	k.c.Nontrivial("save-over", fmt.Sprint(seq), fi)
	var got []byte
	var err error
	o := core.Guard(func() {
		got, err = core.SaveOver(".ply", seq, func(path string, it int) error { return ply.Save(path, mesh(it), formats[fi]) })
	})
	class := fmt.Sprintf("save-over/%s/saves=%d", names[fi], len(seq))
	fail := func(detail string) {
		k.c.Violate(core.Violation{Site: "ply.Save", Clause: clSave, Class: class, Detail: detail, Case: cs})
	}
	if o.Panicked || err != nil {
		k.c.Eval(scope, "save-failure")
		fail(fmt.Sprintf("saves %v: %s %v", seq, o.Msg, err))
		return
	}
	var want bytes.Buffer
	if err := ply.Write(&want, mesh(seq[len(seq)-1]), formats[fi]); err != nil {
		k.c.HarnessError("in-memory write failed: %v", err)
		return
	}
	if !bytes.Equal(got, want.Bytes()) {
		k.c.Eval(scope, "mismatch")
		fail(fmt.Sprintf("after the saves %v to one path the file holds %d bytes, the last mesh alone writes %d (or other content)", seq, len(got), want.Len()))
		return
	}
	k.c.Eval(scope, "ok")
}

func (k checker) saveSequences(next func() bool) {
	for fi := 0; fi < 3; fi++ {
		for _, seq := range core.SaveSequences(3) {
			if next() {
				k.saveOver(seq, fi)
			}
		}
	}
	for fi := 0; fi < 3; fi++ {
		if next() {
			k.afterFailedWrite(fi)
		}
	}
	for fi := 0; fi < 3; fi++ {
		if next() {
			k.sinks(fi)
		}
		if next() {
			k.afterFailedRead(fi)
		}
		if next() {
			k.loadAfterReplace(fi)
		}
	}
	k.c.Bound("F.after_failed_read", "per encoding: ply.ReadMesh of three good files right after every cut / single-byte damage (600 positions) of a 40-face strip with normals and colours")
	k.c.Bound("F.load_after_replace", "per encoding: ply.Load of a path whose file was replaced in place by another (five files, two of equal size; every ordered pair; modification time put back)")
	k.c.Bound("F.save_sequences", "every sequence of 1..3 ply.Save calls over a 9-face strip, a 4-point cloud and a textured triangle to one path, in each encoding; the file must equal the in-memory write of the last")
}

// a write after a failed write (core.AfterFailedWrite), per encoding
func (k checker) afterFailedWrite(fi int) {
	formats := []ply.Format{ply.ASCII, ply.BinaryLittleEndian, ply.BinaryBigEndian}
	names := []string{"ascii", "binary_little_endian", "binary_big_endian"}
	cs := Case{Scope: "after-failed-write", SaveFormat: -(fi + 1)}
	cfgs := []MeshCfg{
		{Gen: "strip", N: 300, Attrs: []AttrCfg{{"Position", 3, "gen"}, {"Normal", 3, "gen"}, {"Color", 3, "unit"}}},
		{Topo: "tri", V: 3, Idx: []int{0, 1, 2}, Attrs: []AttrCfg{{"Position", 3, "gen"}, {"TexCoord", 2, "gen"}}},
	}
	k.c.Nontrivial("after-failed-write", fi)
	why := core.AfterFailedWrite(core.FailLimits, func(it int, w io.Writer) error { return ply.Write(w, cfgs[it].resolved().Build(), formats[fi]) })
	scope := "files/after-failed-write/" + names[fi]
	if why != "" {
		k.c.Eval(scope, "mismatch")
		k.c.Violate(core.Violation{Site: "ply.Write", Clause: "writing a mesh yields exactly the bytes of that mesh (also right after an earlier write failed)", Class: "after-failed-write/" + names[fi], Detail: why, Case: cs})
		return
	}
	k.c.Eval(scope, "ok")
}

func plyBytes(cfg MeshCfg, f ply.Format) []byte {
	var b bytes.Buffer
	if err := ply.Write(&b, cfg.resolved().Build(), f); err != nil {
		return nil
	}
	return b.Bytes()
}

func histCfgs() []MeshCfg {
	return []MeshCfg{
		{Gen: "strip", N: 40, Attrs: []AttrCfg{{"Position", 3, "gen"}, {"Normal", 3, "gen"}, {"Color", 3, "unit"}}},
		{Topo: "tri", V: 3, Idx: []int{0, 1, 2}, Attrs: []AttrCfg{{"Position", 3, "gen"}, {"TexCoord", 2, "gen"}}},
		{Gen: "cloud", N: 6, Attrs: []AttrCfg{{"Position", 3, "gen"}}},
		{Gen: "strip", N: 7, Attrs: []AttrCfg{{"Position", 3, "gen"}, {"Normal", 3, "gen"}}},
		{Gen: "cloud", N: 6, Attrs: []AttrCfg{{"Position", 3, "unit"}}},
	}
}

// a read after a failed read (core.AfterFailedRead), per encoding
func (k checker) afterFailedRead(fi int) {
	formats := []ply.Format{ply.ASCII, ply.BinaryLittleEndian, ply.BinaryBigEndian}
	names := []string{"ascii", "binary_little_endian", "binary_big_endian"}
	cs := Case{Scope: "after-failed-read", SaveFormat: -(fi + 11)}
	cf := histCfgs()
	k.c.Nontrivial("after-failed-read", fi)
	bad := core.BadInputs(plyBytes(cf[0], formats[fi]), 600)
	read := func(data []byte) (string, error) {
		m, err := ply.ReadMesh(bytes.NewReader(data))
		if err != nil || m == nil {
			return "", err
		}
		return fmt.Sprintf("%x", meshlibHash(*m)), nil
	}
	scope := "files/after-failed-read/" + names[fi]
	for _, g := range cf[1:4] {
		if why := core.AfterFailedRead(bad, plyBytes(g, formats[fi]), read); why != "" {
			k.c.Eval(scope, "mismatch")
			k.c.Violate(core.Violation{Site: "ply.ReadMesh", Clause: "reading back yields the same mesh (also right after an earlier read failed)", Class: "after-failed-read/" + names[fi], Detail: why, Case: cs})
			return
		}
	}
	k.c.Eval(scope, "ok")
}

// a load after the file was replaced (core.LoadAfterReplace), per encoding
func (k checker) loadAfterReplace(fi int) {
	formats := []ply.Format{ply.ASCII, ply.BinaryLittleEndian, ply.BinaryBigEndian}
	names := []string{"ascii", "binary_little_endian", "binary_big_endian"}
	cs := Case{Scope: "load-after-replace", SaveFormat: -(fi + 21)}
	k.c.Nontrivial("load-after-replace", fi)
	var files [][]byte
	for _, g := range histCfgs() {
		files = append(files, plyBytes(g, formats[fi]))
	}
	why := core.LoadAfterReplace(".ply", files, func(path string) (string, error) {
		m, err := ply.Load(path)
		if err != nil || m == nil {
			return "", err
		}
		return fmt.Sprintf("%x", meshlibHash(*m)), nil
	})
	scope := "files/load-after-replace/" + names[fi]
	if why != "" {
		k.c.Eval(scope, "mismatch")
		k.c.Violate(core.Violation{Site: "ply.Load", Clause: "loading a path yields the mesh of the file it holds now", Class: "load-after-replace/" + names[fi], Detail: why, Case: cs})
		return
	}
	k.c.Eval(scope, "ok")
}

// the same mesh to every kind of destination (core.SinkAgreement), per encoding
func (k checker) sinks(fi int) {
	formats := []ply.Format{ply.ASCII, ply.BinaryLittleEndian, ply.BinaryBigEndian}
	names := []string{"ascii", "binary_little_endian", "binary_big_endian"}
	cs := Case{Scope: "destinations", SaveFormat: -(fi + 31)}
	k.c.Nontrivial("destinations", fi)
	scope := "files/destinations/" + names[fi]
	cfgs := append(histCfgs(), MeshCfg{Gen: "strip", N: 3000, Attrs: []AttrCfg{{"Position", 3, "gen"}, {"Normal", 3, "gen"}, {"Color", 3, "unit"}}}, MeshCfg{Gen: "cloud", N: 5000, Attrs: []AttrCfg{{"Position", 3, "gen"}}})
	for _, g := range cfgs {
		m := g.resolved().Build()
		if why := core.SinkAgreement(func(w io.Writer) error { return ply.Write(w, m, formats[fi]) }); why != "" {
			k.c.Eval(scope, "mismatch")
			k.c.Violate(core.Violation{Site: "ply.Write", Clause: "writing a mesh yields exactly the bytes of that mesh (whatever kind of io.Writer receives them)", Class: "destinations/" + names[fi], Detail: why, Case: cs})
			return
		}
	}
	k.c.Eval(scope, "ok")
}
