// Package c04: PLY write/read round trip preserves the mesh in all three encodings and the header
// describes the body (DESIGN §4 C04). Bounded-exhaustive enumeration of meshes × writer
// configurations × encodings on the real writer and reader; the oracle is the input mesh itself
// (per-corner tuples through the index array) plus an independent, specification-based PLY parser
// (verif/harness/props/plyref) that recomputes the body layout from the header alone.
package c04

import (
	"bytes"
	"encoding/json"
	"fmt"
	"io"
	"math"
	"os"
	"sort"
	"strconv"
	"strings"

	"github.com/EliCDavis/polyform/formats/ply"
	"github.com/EliCDavis/polyform/modeling"
	"github.com/EliCDavis/vector/vector2"
	"github.com/EliCDavis/vector/vector3"
	"github.com/EliCDavis/vector/vector4"

	"verif/harness/core"
	"verif/harness/meshlib"
	"verif/harness/props/plyio"
	"verif/harness/props/plyref"
)

func init() { core.Register(core.Check{ID: "C04", Run: run, Replay: replay}) }

// ---------------------------------------------------------------------------------------------
// case description (replayable)
// ---------------------------------------------------------------------------------------------

// AttrCfg is one attribute of the input mesh. Val names the value family:
//
//	gen   general finite values: negatives, float32-exact and inexact, vertex-unique with gaps ≥ 1.5
//	unit  inside [0,1], alternating on and off the k/255 grid, vertex-unique by ≥ 10/255
//	oor   colours outside [0,1] (reported only)
//	pal   positions from the S_mesh palette / all-distinct assignment (MeshCfg.Pos)
type AttrCfg struct {
	Name string `json:"n"`
	W    int    `json:"w"`
	Val  string `json:"val"`
}

type MeshCfg struct {
	Topo  string    `json:"topo"` // tri | point
	V     int       `json:"v"`
	Idx   []int     `json:"idx"`
	Pos   []int     `json:"pos,omitempty"`
	Attrs []AttrCfg `json:"attrs"`
	// Mat: 0 none, 1 one range whose material has a colour texture URI, 2 two ranges (plain, textured),
	// 3 one range with a nil material
	Mat int `json:"mat,omitempty"`
	// Gen/N describe a size-ladder mesh compactly (Topo, V and Idx are derived, never stored):
	//   cloud  N vertices, identity indices
	//   strip  N triangles over N+2 welded vertices, triangle f = (f+2, f, f+1)
	Gen string `json:"gen,omitempty"`
	N   int    `json:"n,omitempty"`
}

// resolved fills in topology, vertex count and index array of a generated (size-ladder) mesh.
func (mc MeshCfg) resolved() MeshCfg {
	switch mc.Gen {
	case "cloud":
		mc.Topo, mc.V = "point", mc.N
		mc.Idx = make([]int, mc.N)
		for i := range mc.Idx {
			mc.Idx[i] = i
		}
	case "strip":
		mc.Topo, mc.V = "tri", mc.N+2
		mc.Idx = make([]int, 0, 3*mc.N)
		for f := 0; f < mc.N; f++ {
			mc.Idx = append(mc.Idx, f+2, f, f+1)
		}
	}
	return mc
}

// WProp is one custom property writer.
type WProp struct {
	Attr  string   `json:"attr"`
	W     int      `json:"w"`
	Type  string   `json:"type"` // uchar | int | float | double
	Names []string `json:"names"`
}

// WCfg is a writer configuration. Kind "default" = ply.Write; "mw" = ply.MeshWriter{Props, Unspec}.
type WCfg struct {
	Kind   string  `json:"kind"`
	Unspec bool    `json:"unspec,omitempty"`
	Ptr    bool    `json:"ptr,omitempty"` // hand the property writers over as pointers
	Props  []WProp `json:"props,omitempty"`
	Label  string  `json:"label"`
}

type Case struct {
	Scope string  `json:"scope"`
	Mesh  MeshCfg `json:"mesh"`
	W     WCfg    `json:"writer"`
	// Readers: also read the written bytes through every io.Reader variant; Files: additionally
	// through *os.File, ply.Load and ply.Save (temp file under /dev/shm)
	Readers bool `json:"readers,omitempty"`
	Files   bool `json:"files,omitempty"`
	// scope "save-over": a sequence of ply.Save calls to one path (saveover.go); SaveFormat = 1 + format index
	SaveSeq    []int `json:"save_seq,omitempty"`
	SaveFormat int   `json:"save_format,omitempty"`
	// scope "dup-names" (dupnames.go): topology, 1 + writer index, 1 + format index
	DupTopo   string `json:"dup_topo,omitempty"`
	DupWriter int    `json:"dup_writer,omitempty"`
	DupFormat int    `json:"dup_format,omitempty"`
}

// ---------------------------------------------------------------------------------------------
// values
// ---------------------------------------------------------------------------------------------

func attrSalt(name string) int {
	s := 0
	for _, c := range name {
		s += int(c)
	}
	return s % 7
}

var f32Ladder = core.Float32Ladder()

var f64Ladder = func() (o []float64) {
	for e := -300; e <= 300; e += 12 {
		p := math.Pow(10, float64(e))
		o = append(o, 1.2345678901234567*p, -9.87654321*p)
	}
	return append(o, math.MaxFloat64, -math.MaxFloat64, math.SmallestNonzeroFloat64, 0, 1)
}()

var genPattern = []float64{0.1, -0.75, 0.25, 1.0 / 3, 0.7, -0.2}

// Value of component c of vertex i of an attribute.
func Value(class, name string, i, c int) float64 {
	a := attrSalt(name)
	switch class {
	case "lunit":
		// 8-bit friendly values whose components run with the pairwise coprime periods 251, 241, 239,
		// 233: the tuple identifies the vertex up to 251·241·239 and has no power-of-two period
		p := [4]int{251, 241, 239, 233}[c%4]
		k := (7 + 3*a + i*(61+2*c)) % p
		v := float64(k) / 255
		if (i+c)%2 == 1 {
			v = (float64(k) + 0.3) / 255
		}
		return v
	case "unit", "oor":
		k := (17 + 61*i + 29*c + 7*a) % 256
		v := float64(k) / 255
		if (i+c)%2 == 1 { // off the grid
			if k == 255 {
				v = (float64(k) - 0.3) / 255
			} else {
				v = (float64(k) + 0.3) / 255
			}
		}
		if class == "oor" {
			v = v*1.6 - 0.3
		}
		return v
	}
	if strings.HasPrefix(class, "dlad:") {
		// double ladder: powers of ten over the whole double range (both signs) — spelled without an
		// exponent a value of 1e-290 takes 292 characters
		k, _ := strconv.Atoi(class[5:])
		return f64Ladder[(k+4*i+c+11*a)%len(f64Ladder)]
	}
	if strings.HasPrefix(class, "lad:") {
		// value ladder: vertex i, component c of the family "lad:k" is rung k + 4i + c (+ a per-attribute shift)
		k, _ := strconv.Atoi(class[4:])
		return float64(math.Float32frombits(f32Ladder[(k+4*i+c+11*a)%len(f32Ladder)]))
	}
	v := float64(3*i) + 0.5*float64(c) + genPattern[(a+c+i)%len(genPattern)]
	if (a+i)%3 == 2 {
		v = -v
	}
	return v
}

func init() {
	// harness self-check: values are vertex-unique even after the coarsest storage (int truncation,
	// 8-bit rounding), so that any permutation of vertices is visible to the oracle.
	for _, n := range []string{"Position", "Normal", "Color", "TexCoord", "FDC", "Opacity", "Scale", "Rotation", "Intensity", "Class", "confidence", "my_scalar"} {
		for i := 0; i < 8; i++ {
			for j := i + 1; j < 8; j++ {
				if math.Abs(math.Trunc(Value("gen", n, i, 0))-math.Trunc(Value("gen", n, j, 0))) < 1 {
					panic(fmt.Sprintf("c04: gen values of %s not unique after truncation (%d,%d)", n, i, j))
				}
				if math.Abs(Value("unit", n, i, 0)-Value("unit", n, j, 0)) < 10.0/255 {
					panic(fmt.Sprintf("c04: unit values of %s too close (%d,%d)", n, i, j))
				}
			}
			for c := 0; c < 4; c++ {
				if u := Value("unit", n, i, c); u < 0 || u > 1 {
					panic("c04: unit value outside [0,1]")
				}
			}
		}
	}
}

func (mc MeshCfg) position(i int) vector3.Float64 {
	if mc.Pos == nil {
		return meshlib.DistinctPos(i)
	}
	return meshlib.Palette[mc.Pos[i]]
}

// Build constructs a fresh mesh through the public constructors/setters only.
func (mc MeshCfg) Build() modeling.Mesh {
	topo := modeling.TriangleTopology
	if mc.Topo == "point" {
		topo = modeling.PointTopology
	}
	m := modeling.NewMesh(topo, append([]int{}, mc.Idx...))
	for _, a := range mc.Attrs {
		switch a.W {
		case 1:
			d := make([]float64, mc.V)
			for i := range d {
				d[i] = Value(a.Val, a.Name, i, 0)
			}
			m = m.SetFloat1Attribute(a.Name, d)
		case 2:
			d := make([]vector2.Float64, mc.V)
			for i := range d {
				d[i] = vector2.New(Value(a.Val, a.Name, i, 0), Value(a.Val, a.Name, i, 1))
			}
			m = m.SetFloat2Attribute(a.Name, d)
		case 3:
			d := make([]vector3.Float64, mc.V)
			for i := range d {
				if a.Val == "pal" {
					d[i] = mc.position(i)
				} else {
					d[i] = vector3.New(Value(a.Val, a.Name, i, 0), Value(a.Val, a.Name, i, 1), Value(a.Val, a.Name, i, 2))
				}
			}
			m = m.SetFloat3Attribute(a.Name, d)
		case 4:
			d := make([]vector4.Float64, mc.V)
			for i := range d {
				d[i] = vector4.New(Value(a.Val, a.Name, i, 0), Value(a.Val, a.Name, i, 1), Value(a.Val, a.Name, i, 2), Value(a.Val, a.Name, i, 3))
			}
			m = m.SetFloat4Attribute(a.Name, d)
		}
	}
	uri := "tex.png"
	switch mc.Mat {
	case 1:
		m = m.SetMaterials([]modeling.MeshMaterial{{PrimitiveCount: mc.prims(), Material: &modeling.Material{Name: "textured", ColorTextureURI: &uri}}})
	case 2:
		n := mc.prims()
		m = m.SetMaterials([]modeling.MeshMaterial{
			{PrimitiveCount: n / 2, Material: &modeling.Material{Name: "plain"}},
			{PrimitiveCount: n - n/2, Material: &modeling.Material{Name: "textured", ColorTextureURI: &uri}},
		})
	case 3:
		m = m.SetMaterials([]modeling.MeshMaterial{{PrimitiveCount: mc.prims(), Material: nil}})
	}
	return m
}

func (mc MeshCfg) prims() int {
	if mc.Topo == "point" {
		return len(mc.Idx)
	}
	return len(mc.Idx) / 3
}

func (mc MeshCfg) has(name string, w int) bool {
	for _, a := range mc.Attrs {
		if a.Name == name && a.W == w {
			return true
		}
	}
	return false
}

func (mc MeshCfg) attr(name string) *AttrCfg {
	for i := range mc.Attrs {
		if mc.Attrs[i].Name == name {
			return &mc.Attrs[i]
		}
	}
	return nil
}

// shapeClass is the deterministic input class of the index structure.
func (mc MeshCfg) shapeClass() string {
	id := len(mc.Idx) == mc.V
	for k, i := range mc.Idx {
		if i != k {
			id = false
		}
	}
	s := mc.Topo
	if id {
		return s + "/identity-index"
	}
	return s + "/non-identity-index"
}

// ---------------------------------------------------------------------------------------------
// writer configurations
// ---------------------------------------------------------------------------------------------

func scalarType(s string) ply.ScalarPropertyType {
	switch s {
	case "uchar":
		return ply.UChar
	case "int":
		return ply.Int
	case "float":
		return ply.Float
	case "double":
		return ply.Double
	}
	panic("c04: scalar type " + s)
}

func (p WProp) build(ptr bool) ply.PropertyWriter {
	t := scalarType(p.Type)
	switch p.W {
	case 1:
		w := ply.Vector1PropertyWriter{ModelAttribute: p.Attr, PlyProperty: p.Names[0], Type: t}
		if ptr {
			return &w
		}
		return w
	case 2:
		w := ply.Vector2PropertyWriter{ModelAttribute: p.Attr, PlyPropertyX: p.Names[0], PlyPropertyY: p.Names[1], Type: t}
		if ptr {
			return &w
		}
		return w
	case 3:
		w := ply.Vector3PropertyWriter{ModelAttribute: p.Attr, PlyPropertyX: p.Names[0], PlyPropertyY: p.Names[1], PlyPropertyZ: p.Names[2], Type: t}
		if ptr {
			return &w
		}
		return w
	}
	w := ply.Vector4PropertyWriter{ModelAttribute: p.Attr, PlyPropertyX: p.Names[0], PlyPropertyY: p.Names[1], PlyPropertyZ: p.Names[2], PlyPropertyW: p.Names[3], Type: t}
	if ptr {
		return &w
	}
	return w
}

var formats = []struct {
	label string
	lib   ply.Format
	ref   string
}{
	{"ascii", ply.ASCII, plyref.ASCII},
	{"little", ply.BinaryLittleEndian, plyref.LE},
	{"big", ply.BinaryBigEndian, plyref.BE},
}

func (w WCfg) write(m modeling.Mesh, out io.Writer, f ply.Format) error {
	if w.Kind == "default" {
		return ply.Write(out, m, f)
	}
	mw := ply.MeshWriter{Format: f, WriteUnspecifiedProperties: w.Unspec}
	for _, p := range w.Props {
		mw.Properties = append(mw.Properties, p.build(w.Ptr))
	}
	return mw.Write(m, out)
}

// the documented default vocabulary, written out as explicit custom property writers
func stdProps() []WProp {
	return []WProp{
		{"Position", 3, "float", []string{"x", "y", "z"}},
		{"Normal", 3, "float", []string{"nx", "ny", "nz"}},
		{"Color", 3, "uchar", []string{"red", "green", "blue"}},
		{"FDC", 3, "float", []string{"f_dc_0", "f_dc_1", "f_dc_2"}},
		{"Opacity", 1, "float", []string{"opacity"}},
		{"Scale", 3, "float", []string{"scale_0", "scale_1", "scale_2"}},
		{"Rotation", 4, "float", []string{"rot_0", "rot_1", "rot_2", "rot_3"}},
	}
}

// ---------------------------------------------------------------------------------------------
// expectation: which attributes must come back, stored with which type
// ---------------------------------------------------------------------------------------------

type expect struct {
	src   string // attribute of the input mesh
	w     int
	dst   string // attribute expected on the mesh read back
	typ   string // stored type: uchar | int | float | double
	kind  string // scalar-property | vector-property | face-texcoord-list
	class string // value family of the source
}

// groupOf maps conventional property names to the attribute the file describes.
func groupOf(names []string) (string, bool) {
	for _, g := range plyref.Groups {
		for opt := 0; opt <= g.Optional; opt++ {
			want := g.Names[:len(g.Names)-opt]
			if len(want) != len(names) {
				continue
			}
			same := true
			for i := range want {
				if want[i] != names[i] {
					same = false
				}
			}
			if same {
				return g.Attr, true
			}
		}
	}
	if len(names) == 1 {
		return names[0], true
	}
	return "", false
}

func expectations(cs Case) []expect {
	var out []expect
	props := cs.W.Props
	unspec := cs.W.Unspec
	if cs.W.Kind == "default" {
		props = stdProps()
		unspec = true
	}
	for _, a := range cs.Mesh.Attrs {
		if a.Name == modeling.TexCoordAttribute && a.W == 2 && cs.Mesh.Topo == "tri" {
			// always written per face corner
			out = append(out, expect{a.Name, 2, a.Name, "float", "face-texcoord-list", a.Val})
			continue
		}
		found := false
		for _, p := range props {
			if p.Attr == a.Name && p.W == a.W {
				if dst, ok := groupOf(p.Names); ok {
					kind := "vector-property"
					if a.W == 1 {
						kind = "scalar-property"
					}
					out = append(out, expect{a.Name, a.W, dst, p.Type, kind, a.Val})
				}
				found = true
				break
			}
		}
		if found || !unspec {
			continue
		}
		switch {
		case a.W == 1:
			// a scalar attribute is stored as a float property of the same name
			out = append(out, expect{a.Name, 1, a.Name, "float", "scalar-property", a.Val})
		case a.W == 2 && a.Name == modeling.TexCoordAttribute:
			// the statement lists the texture coordinate of every primitive corner for point clouds too
			out = append(out, expect{a.Name, 2, a.Name, "float", "vector-property", a.Val})
		}
		// other unclaimed vector attributes are stored under writer-chosen names (<attr>_k): the
		// statement promises nothing about them
	}
	return out
}

// tolerance of one stored type, as the statement names it: float32 precision for float, exact
// transport for double (a copy), the integer grid for int, 1/255 for 8-bit values.
func within(want, got float64, typ string) bool {
	if math.IsNaN(got) || math.IsInf(got, 0) {
		return false
	}
	d := math.Abs(want - got)
	switch typ {
	case "uchar":
		return d <= (1.0/255)*(1+1e-9)
	case "int":
		return d < 1
	case "float":
		return d <= math.Abs(want)*math.Pow(2, -23)+1e-300
	}
	return d <= math.Abs(want)*1e-15
}

// ---------------------------------------------------------------------------------------------
// one case = one (mesh, writer) pair through all three encodings
// ---------------------------------------------------------------------------------------------

const (
	clause1 = "reading back what was written yields the same topology, primitive count and per-corner attributes within the stored type's precision"
	clause2 = "ascii, little-endian and big-endian encodings of one mesh decode to the same result"
	clause3 = "the header describes the body that follows (element counts, property list, byte sizes)"
	// the io.Reader that delivers the bytes is part of "reading it back"
	clauseReader = "reading back yields the same mesh whatever io.Reader delivers the written bytes (result identical to the *bytes.Reader delivery)"
)

type checker struct{ c *core.Ctx }

type diff struct {
	kind   string // topology | count | missing | width | value
	exp    *expect
	detail string
}

// compare orig (input) against got on the expected attributes. Structural differences come alone;
// otherwise every expected attribute is judged on its own (one known difference cannot hide another).
func compare(orig, got *plyref.Corners, exps []expect) []*diff {
	if orig.Topo != got.Topo {
		return []*diff{{"topology", nil, fmt.Sprintf("topology %s became %s", orig.Topo, got.Topo)}}
	}
	if orig.Prims != got.Prims {
		return []*diff{{"count", nil, fmt.Sprintf("%d primitives became %d", orig.Prims, got.Prims)}}
	}
	if orig.N == 0 {
		return nil // no primitive corner exists: nothing more is observable
	}
	var out []*diff
attrs:
	for i := range exps {
		e := &exps[i]
		src := orig.Attrs[e.src]
		if src == nil {
			continue
		}
		dst := got.Attrs[e.dst]
		if dst == nil {
			out = append(out, &diff{"missing", e, fmt.Sprintf("attribute %s did not come back (present: %v)", e.dst, got.Names())})
			continue
		}
		if dst.Width != e.w {
			out = append(out, &diff{"width", e, fmt.Sprintf("attribute %s came back with %d components, had %d", e.dst, dst.Width, e.w)})
			continue
		}
		for k := 0; k < orig.N; k++ {
			for c := 0; c < e.w; c++ {
				if !within(src.Vals[k][c], dst.Vals[k][c], e.typ) {
					out = append(out, &diff{"value", e, fmt.Sprintf("corner %d of %s (stored as %s): wrote %v, read %v (component %d)", k, e.src, e.typ, src.Vals[k][:e.w], dst.Vals[k][:e.w], c)})
					continue attrs
				}
			}
		}
	}
	return out
}

// shapeClass: vertex properties are stored per vertex, so only the topology is part of their input
// class; face lists and structural differences depend on the index structure as well.
func (d *diff) shapeClass(mc MeshCfg) string {
	s := mc.shapeClass()
	if d.exp != nil && d.exp.kind != "face-texcoord-list" {
		s = mc.Topo
	}
	if mc.Gen != "" {
		s += "/size-ladder" // sizes beyond the small scopes are their own input class
	}
	return s
}

func (d *diff) attrClass() string {
	if d.exp == nil {
		return "structure"
	}
	return d.exp.kind + ":" + d.exp.typ
}

func readerSite(d *diff, format string) string {
	if d.exp == nil {
		return "ply.MeshReader.Read"
	}
	switch d.exp.kind {
	case "face-texcoord-list":
		if format == "ascii" {
			return "ply.readAsciiFaceElement"
		}
		return "ply.readBinaryFaceElement"
	case "scalar-property":
		return "ply.Vector1PropertyReader"
	}
	return fmt.Sprintf("ply.Vector%dPropertyReader", d.exp.w)
}

func writerSite(d *diff, format string) string {
	if d.exp != nil && d.exp.kind == "face-texcoord-list" {
		if format == "ascii" {
			return "ply.writeAsciiTriTopo"
		}
		return "ply.writeBinaryTriTopo"
	}
	return "ply.MeshWriter.Write"
}

// alarmed reports whether the case lies inside the stated preconditions, else the reported scope.
func alarmed(cs Case) (bool, string, string) {
	if !cs.Mesh.has(modeling.PositionAttribute, 3) {
		return false, "reported/no-position", "meshes without a Position attribute are not point clouds or triangle meshes in the statement's sense; run and counted, never alarmed"
	}
	for _, a := range cs.Mesh.Attrs {
		if a.Val == "oor" {
			return false, "reported/out-of-range-colour", "8-bit storage of values outside [0,1] (ascii clamps, binary wraps): outside the stated precondition; run and counted, never alarmed"
		}
	}
	// an attribute stored in 8 bits must lie in [0,1]
	for _, e := range expectations(cs) {
		if e.typ == "uchar" && e.class != "unit" && e.class != "lunit" {
			return false, "reported/out-of-range-colour", "8-bit storage of values outside [0,1] (ascii clamps, binary wraps): outside the stated precondition; run and counted, never alarmed"
		}
	}
	return true, "", ""
}

// site of a crash: innermost polyform frame, spelled like the other sites ("ply.f").
func site(stack string) string {
	return strings.TrimPrefix(core.TopFrame(stack), "formats/")
}

type rt struct {
	ok  bool
	got *plyref.Corners
}

func (k checker) eval(cs Case) {
	c := k.c
	isAlarmed, rscope, rnote := alarmed(cs)
	scope := cs.Scope
	if !isAlarmed {
		scope = rscope
		c.ReportedOnly(scope, rnote)
	}
	compact := cs // what is recorded for replay: generated meshes stay (kind, n)
	cs.Mesh = cs.Mesh.resolved()
	shape := cs.Mesh.shapeClass()
	if cs.Mesh.Gen != "" {
		shape += "/size-ladder"
	}
	exps := expectations(cs)
	orig := plyref.CornersOf(cs.Mesh.Build())
	violate := func(site, clause, class, detail string) {
		if !isAlarmed {
			return
		}
		c.Violate(core.Violation{Site: site, Clause: clause, Class: class, Detail: detail + " | " + describe(cs), Case: compact})
	}
	var res [3]rt
	for fi, f := range formats {
		outcome := func() string {
			m := cs.Mesh.Build()
			var buf bytes.Buffer
			var werr error
			o := core.Guard(func() { werr = cs.W.write(m, &buf, f.lib) })
			if o.Crash() {
				violate(site(o.Stack), clause1, "write-crash/"+f.label+"/"+shape, "writer crashed: "+o.Msg)
				return "write-crash"
			}
			if o.Panicked {
				violate("ply.MeshWriter.Write", clause1, "write-failure/"+f.label+"/"+shape, "writer refused a well-formed mesh: "+o.Msg)
				return "write-failure"
			}
			if werr != nil {
				violate("ply.MeshWriter.Write", clause1, "write-failure/"+f.label+"/"+shape, "writer refused a well-formed mesh: "+werr.Error())
				return "write-failure"
			}
			data := buf.Bytes()
			// clause 3: the independent parser recomputes the body from the header alone
			file, perr := plyref.Parse(data)
			if perr != nil {
				kind := "header"
				if pe, ok := perr.(*plyref.Error); ok {
					kind = pe.Kind
				}
				violate("ply.MeshWriter.Write", clause3, kind+"/"+f.label+"/"+shape+"/"+attrsClass(cs), perr.Error())
				return "header-mismatch" // not handed to the reader: the ascii reader may not terminate on such bodies
			}
			if file.Format != f.ref {
				violate("ply.Header.Write", clause3, "format-line/"+f.label, fmt.Sprintf("asked for %s, header says %s", f.ref, file.Format))
				return "header-mismatch"
			}
			// what the independently decoded file says about each attribute (writer/reader attribution)
			wbad := map[string]bool{}
			desc := plyref.Describe(file)
			if len(desc.Unsupported) == 0 {
				for _, d := range compare(orig, desc.Corners(), exps) {
					if d.exp == nil {
						wbad[""] = true
					} else {
						wbad[d.exp.src] = true
					}
				}
			}
			base := plyio.Base(data) // the reference delivery: *bytes.Reader
			if cs.Readers {
				k.readerVariants(cs, scope, isAlarmed, f.label, f.lib, shape, data, base, violate)
			}
			if base.Crash {
				violate(base.Site, clause1, "read-crash/"+f.label+"/"+shape, "reader crashed on the writer's output: "+base.Err)
				return "read-crash"
			}
			if !base.Loaded() {
				violate("ply.MeshReader.Read", clause1, "read-failure/"+f.label+"/"+shape, "reader refused the writer's output: "+base.Err)
				return "read-failure"
			}
			back := base.Mesh
			got := plyref.CornersOf(*back)
			if ds := compare(orig, got, exps); len(ds) > 0 {
				for _, d := range ds {
					key := ""
					if d.exp != nil {
						key = d.exp.src
					}
					site := readerSite(d, f.label)
					if wbad[key] {
						// the independently decoded file already disagrees with the input: the writer is at fault
						site = writerSite(d, f.label)
					}
					violate(site, clause1, d.kind+"/"+f.label+"/"+d.shapeClass(cs.Mesh)+"/"+d.attrClass(), d.detail)
				}
				return "mismatch"
			}
			res[fi] = rt{true, got}
			return "ok"
		}()
		c.Eval(scope, outcome)
	}
	// clause 2 (only informative beyond clause 1 when every encoding round-trips on its own)
	if res[0].ok && res[1].ok && res[2].ok {
		if d := crossCompare(res[1].got, res[2].got, exps, true); d != "" {
			violate("ply.MeshReader.Read", clause2, "little-vs-big/"+shape, d)
		}
		if d := crossCompare(res[0].got, res[1].got, exps, false); d != "" {
			violate("ply.MeshReader.Read", clause2, "ascii-vs-little/"+shape, d)
		}
	}
	if isAlarmed && orig.N > 0 && len(cs.Mesh.Attrs) > 0 {
		c.Nontrivial(caseKey(compact))
	}
	c.Sample(scope, compact)
}

// readerVariants feeds the written bytes through every other io.Reader delivery (and, for the
// Files subset, through *os.File, ply.Load and ply.Save→ply.Load on a temp file under /dev/shm) and
// demands a result identical to the *bytes.Reader delivery.
func (k checker) readerVariants(cs Case, scope string, isAlarmed bool, fl string, lib ply.Format, shape string, data []byte, base *plyio.Result, violate func(site, clause, class, detail string)) {
	c := k.c
	vscope := "reader-variants/" + scope
	if !isAlarmed {
		c.ReportedOnly(vscope, "reader variants outside the alarmed scope: run and counted, never alarmed")
	}
	ladder := ""
	if cs.Mesh.Gen != "" {
		ladder = "/size-ladder"
	}
	differs := 0
	n := plyio.Variants(data, base, cs.Files, func(variant, kind, vsite, detail string) {
		violate(vsite, clauseReader, "reader="+variant+"/"+kind+"/"+fl+"/"+cs.Mesh.Topo+ladder, detail)
		differs++
	})
	if cs.Files && cs.W.Kind == "default" && plyref.ShmDir() != "" {
		// the file API of the writer: ply.Save must put the same bytes on disk, ply.Load must read them
		path := plyref.TempFile(nil)
		if path != "" {
			var serr error
			o := core.Guard(func() { serr = ply.Save(path, cs.Mesh.Build(), lib) })
			saved, _ := os.ReadFile(path)
			n++
			switch {
			case o.Panicked || serr != nil:
				msg := o.Msg
				if serr != nil {
					msg = serr.Error()
				}
				violate("ply.Save", clauseReader, "writer=ply.Save/error/"+fl+"/"+cs.Mesh.Topo+ladder, "ply.Save failed where ply.Write succeeds: "+msg)
				differs++
			case !bytes.Equal(saved, data):
				violate("ply.Save", clauseReader, "writer=ply.Save/different-bytes/"+fl+"/"+cs.Mesh.Topo+ladder, fmt.Sprintf("ply.Save put %d bytes on disk, ply.Write produced %d (or other content)", len(saved), len(data)))
				differs++
			}
			os.Remove(path)
		}
	}
	for i := 0; i < n; i++ {
		if i < differs {
			c.Eval(vscope, "differs")
		} else {
			c.Eval(vscope, "identical")
		}
	}
}

// crossCompare: little vs big must agree exactly (the same numbers in another byte order); ascii
// vs binary within twice the stored type's precision (each is within one precision of the input).
func crossCompare(a, b *plyref.Corners, exps []expect, exact bool) string {
	for _, e := range exps {
		x, y := a.Attrs[e.dst], b.Attrs[e.dst]
		if x == nil || y == nil {
			continue
		}
		for k := 0; k < a.N && k < b.N; k++ {
			for c := 0; c < e.w; c++ {
				p, q := x.Vals[k][c], y.Vals[k][c]
				if exact {
					if p != q {
						return fmt.Sprintf("corner %d of %s: %v vs %v", k, e.dst, p, q)
					}
					continue
				}
				if !within(p, q, e.typ) && !within(p+(q-p)/2, q, e.typ) {
					return fmt.Sprintf("corner %d of %s (stored as %s): %v vs %v", k, e.dst, e.typ, p, q)
				}
			}
		}
	}
	return ""
}

func attrsClass(cs Case) string {
	hasT := cs.Mesh.has(modeling.TexCoordAttribute, 2)
	s := "no-texcoord"
	if hasT {
		s = "texcoord"
	}
	if cs.Mesh.Mat == 1 || cs.Mesh.Mat == 2 {
		s += "+textured-material"
	}
	return s
}

func describe(cs Case) string {
	var as []string
	for _, a := range cs.Mesh.Attrs {
		as = append(as, fmt.Sprintf("%s/%d:%s", a.Name, a.W, a.Val))
	}
	if cs.Mesh.Gen != "" {
		return fmt.Sprintf("size-ladder mesh %s n=%d (%s, %d vertices) attrs=[%s] writer=%s", cs.Mesh.Gen, cs.Mesh.N, cs.Mesh.Topo, cs.Mesh.V, strings.Join(as, " "), cs.W.Label)
	}
	return fmt.Sprintf("mesh %s v=%d idx=%v attrs=[%s] mat=%d writer=%s", cs.Mesh.Topo, cs.Mesh.V, cs.Mesh.Idx, strings.Join(as, " "), cs.Mesh.Mat, cs.W.Label)
}

func caseKey(cs Case) string {
	b, _ := json.Marshal(cs)
	return string(b)
}

// ---------------------------------------------------------------------------------------------
// enumeration
// ---------------------------------------------------------------------------------------------

var recognised = []AttrCfg{
	{"Position", 3, "gen"}, {"Normal", 3, "gen"}, {"Color", 3, "unit"}, {"TexCoord", 2, "gen"},
	{"FDC", 3, "gen"}, {"Opacity", 1, "gen"}, {"Scale", 3, "gen"}, {"Rotation", 4, "gen"},
}

var userScalars = []AttrCfg{{"Intensity", 1, "gen"}, {"Class", 1, "gen"}, {"confidence", 1, "unit"}, {"my_scalar", 1, "gen"}}

type shape struct {
	name string
	topo string
	v    int
	idx  []int
}

var subsetShapes = []shape{
	{"cloud-2", "point", 2, []int{0, 1}},
	{"one-triangle", "tri", 3, []int{0, 1, 2}},
	{"two-triangles-unwelded", "tri", 6, []int{0, 1, 2, 3, 4, 5}},
	{"two-triangles-welded", "tri", 4, []int{0, 1, 2, 2, 1, 3}},
}

func writersAB() []WCfg {
	return []WCfg{
		{Kind: "default", Label: "default(ply.Write)"},
		{Kind: "mw", Unspec: false, Props: stdProps(), Label: "MeshWriter{std props, unspecified off}"},
		{Kind: "mw", Unspec: true, Props: nil, Label: "MeshWriter{no props, unspecified on}"},
	}
}

func run(c *core.Ctx) {
	k := checker{c}
	next := func() bool { return c.Next() }

	// ---- scope A: every subset of the eight recognised attributes × every subset of four
	// user-named scalars, on four shapes, three writers --------------------------------------
	c.Bound("A.recognised_attribute_subsets", 1<<len(recognised))
	c.Bound("A.user_scalar_subsets", 1<<len(userScalars))
	c.Bound("A.shapes", len(subsetShapes))
	ws := writersAB()
	stop := false
	for _, sh := range subsetShapes {
		for mask := 0; mask < 1<<len(recognised) && !stop; mask++ {
			for sm := 0; sm < 1<<len(userScalars); sm++ {
				if c.Expired() {
					stop = true
					break
				}
				if !next() {
					continue
				}
				mc := MeshCfg{Topo: sh.topo, V: sh.v, Idx: sh.idx}
				for a, at := range recognised {
					if mask&(1<<a) != 0 {
						mc.Attrs = append(mc.Attrs, at)
					}
				}
				for a, at := range userScalars {
					if sm&(1<<a) != 0 {
						mc.Attrs = append(mc.Attrs, at)
					}
				}
				for _, w := range ws {
					// reader variants on every fourth (attribute subset, scalar subset) pair
					k.eval(Case{Scope: "A/attribute-subsets/" + sh.name, Mesh: mc, W: w, Readers: (mask^sm)&3 == 0})
				}
			}
		}
	}

	// ---- scope C: custom Vector{1..4}PropertyWriter with each scalar type ------------------------
	k.customTypes(next)

	// ---- scope D: materials (the writer adds a TextureFile comment to the header) -----------------
	k.materials(next)

	// ---- scope L: size ladder (element counts around every power of two) -------------------------
	k.ladder(next)

	// ---- scope W: wide records (long ascii lines) ---------------------------------------------------------
	k.wide(next)

	// ---- scope G: one attribute name in two dimensions ------------------------------------------------
	k.dupNameCases(next)

	// ---- scope F: ply.Save over an existing file ------------------------------------------------------
	k.saveSequences(next)

	// ---- scope V: value ladder (every float32 magnitude band in every component) -------------------
	k.values(next)

	// ---- scope B: every mesh of S_mesh(4,2) with three attribute mixes ----------------------------
	k.smesh(next)
}

// values: the shapes and attribute sets above draw their numbers from a few ordinary ones; number
// formatting and parsing (ascii) and width handling (binary) have value-dependent paths of their own.
// Every rung of the float32 ladder (core.Float32Ladder: both zeros, subnormals, every binade, the
// integer-width borders, decimal powers) passes through every component of Position, Normal,
// TexCoord and two scalars, stored as float and (Position, TexCoord) as double, on a point cloud and
// on a welded triangle mesh, in all three encodings, under the same three clauses.
func (k checker) values(next func() bool) {
	c := k.c
	shapes := []shape{
		{"cloud-4", "point", 4, []int{0, 1, 2, 3}},
		{"two-triangles-welded", "tri", 4, []int{0, 1, 2, 2, 1, 3}},
	}
	ws := []WCfg{
		{Kind: "default", Label: "default(ply.Write)"},
		{Kind: "mw", Unspec: true, Ptr: true, Label: "MeshWriter{Position double, TexCoord as s/t double, unspecified on}", Props: []WProp{
			{"TexCoord", 2, "double", []string{"s", "t"}},
			{"Position", 3, "double", []string{"x", "y", "z"}},
		}},
	}
	c.Bound("V.value_ladder", fmt.Sprintf("%d float32 values, each through every component of Position, Normal, TexCoord, Opacity, Intensity x %d shapes x %d writers x 3 encodings", len(f32Ladder), len(shapes), len(ws)))
	for r := range f32Ladder {
		if c.Expired() {
			return
		}
		if !next() {
			continue
		}
		val := "lad:" + strconv.Itoa(r)
		attrs := []AttrCfg{{"Position", 3, val}, {"Normal", 3, val}, {"TexCoord", 2, val}, {"Opacity", 1, val}, {"Intensity", 1, val}}
		for _, sh := range shapes {
			for _, w := range ws {
				k.eval(Case{Scope: "V/value-ladder/" + sh.name, Mesh: MeshCfg{Topo: sh.topo, V: sh.v, Idx: sh.idx, Attrs: attrs}, W: w, Readers: r%64 == 0})
			}
		}
	}
}

var mixesB = []struct {
	name  string
	attrs []AttrCfg
}{
	{"P", []AttrCfg{{"Position", 3, "pal"}}},
	{"PT", []AttrCfg{{"Position", 3, "pal"}, {"TexCoord", 2, "gen"}}},
	{"all", []AttrCfg{{"Position", 3, "pal"}, {"Normal", 3, "gen"}, {"Color", 3, "unit"}, {"TexCoord", 2, "gen"}, {"FDC", 3, "gen"},
		{"Opacity", 1, "gen"}, {"Scale", 3, "gen"}, {"Rotation", 4, "gen"}, {"Intensity", 1, "gen"}, {"confidence", 1, "unit"}}},
}

func (k checker) smesh(next func() bool) {
	c := k.c
	opt := meshlib.EnumOpt{MaxV: 4, MaxP: 2, Topos: []string{"point", "tri"}, Mixes: []string{"P"}, AllPos: c.Thorough()}
	c.Bound("B.S_mesh", fmt.Sprintf("v<=%d p<=%d all-positions=%v", opt.MaxV, opt.MaxP, opt.AllPos))
	ws := []WCfg{
		{Kind: "default", Label: "default(ply.Write)"},
		{Kind: "mw", Unspec: false, Props: stdProps(), Label: "MeshWriter{std props, unspecified off}"},
		{Kind: "mw", Unspec: true, Ptr: true, Label: "MeshWriter{Position double, TexCoord as s/t double, Normal int, unspecified on}", Props: []WProp{
			{"TexCoord", 2, "double", []string{"s", "t"}},
			{"Position", 3, "double", []string{"x", "y", "z"}},
			{"Normal", 3, "int", []string{"nx", "ny", "nz"}},
		}},
	}
	// reader variants on every 8th mesh (thorough: every 32nd)
	stride := 8
	if c.Thorough() {
		stride = 32
	}
	c.Bound("B.reader_variant_stride", stride)
	n := meshlib.Enum(opt, func(i int, s meshlib.Spec) bool {
		if c.Expired() {
			return false
		}
		if !next() {
			return true
		}
		for _, mix := range mixesB {
			mc := MeshCfg{Topo: s.Topo, V: s.V, Idx: s.Idx, Pos: s.Pos, Attrs: mix.attrs}
			for _, w := range ws {
				k.eval(Case{Scope: "B/S_mesh(4,2)/" + mix.name, Mesh: mc, W: w, Readers: i%stride == 0})
			}
		}
		return true
	})
	c.Bound("B.meshes_per_mix", n)
}

// ladder: thresholds a change may introduce (block sizes, chunked decoding) lie far above the small
// scopes, so element counts 2^k-1, 2^k, 2^k+1 and one in between are run for k = 2..15 (thorough
// 2..17): point clouds with n vertices and welded triangle strips with n faces in a non-identity
// index order, with and without TexCoord, Normal + Color + one user scalar, default writer, all
// three encodings, the same three oracle clauses. Values are vertex-unique and have no
// power-of-two period, so a block boundary cannot hide behind equal records.
func (k checker) ladder(next func() bool) {
	c := k.c
	kmax := 15
	if c.Thorough() {
		kmax = 17
	}
	sizes := plyref.Ladder(2, kmax)
	c.Bound("L.size_ladder", fmt.Sprintf("2^k-1, 2^k, 2^k+1, 3*2^(k-1)+1 for k=2..%d (%d sizes, largest %d)", kmax, len(sizes), sizes[len(sizes)-1]))
	base := []AttrCfg{{"Position", 3, "gen"}, {"Normal", 3, "gen"}, {"Color", 3, "lunit"}, {"Intensity", 1, "gen"}}
	w := WCfg{Kind: "default", Label: "default(ply.Write)"}
	for _, n := range sizes {
		for _, gen := range []string{"cloud", "strip"} {
			for _, tex := range []bool{false, true} {
				if c.Expired() {
					return
				}
				if !next() {
					continue
				}
				attrs := append([]AttrCfg{}, base...)
				if tex {
					attrs = append(attrs, AttrCfg{"TexCoord", 2, "gen"})
				}
				// *os.File / ply.Load / ply.Save do real I/O: the rungs up to 2^12+1 and the top rung only
				files := n <= 4097 || n == sizes[len(sizes)-1]
				lc := Case{Scope: "L/size-ladder/" + gen, Mesh: MeshCfg{Gen: gen, N: n, Attrs: attrs}, W: w, Readers: true, Files: files}
				k.eval(lc)
				if n >= 8191 {
					// the same rung with the process limited to three processors (the job's default is two):
					// work split by the processor count leaves a different remainder
					lc.Files = false
					k.c.WithProcs(3, func() { k.eval(lc) })
				}
			}
		}
	}
}

// wide: records far wider than any conventional layout — 40, 200, 400 and 1000 user-named scalars
// through the default writer, and sixteen double components over the double ladder (a value of
// 1e-290 takes 292 characters without an exponent) through double-typed property writers: an ascii
// body line of 4 KB … 100 KB, a binary record of up to 4 KB.
func (k checker) wide(next func() bool) {
	shapes := []shape{
		{"cloud-3", "point", 3, []int{0, 1, 2}},
		{"two-triangles-welded", "tri", 4, []int{0, 1, 2, 2, 1, 3}},
	}
	def := WCfg{Kind: "default", Label: "default(ply.Write)"}
	for _, n := range []int{40, 200, 400, 1000} {
		attrs := []AttrCfg{{"Position", 3, "gen"}}
		for j := 0; j < n; j++ {
			attrs = append(attrs, AttrCfg{fmt.Sprintf("s%04d", j), 1, "gen"})
		}
		for _, sh := range shapes {
			if next() {
				k.eval(Case{Scope: "W/wide-records/" + sh.name, Mesh: MeshCfg{Topo: sh.topo, V: sh.v, Idx: sh.idx, Attrs: attrs}, W: def, Readers: n <= 200})
			}
		}
	}
	dbl := WCfg{Kind: "mw", Unspec: true, Ptr: true, Label: "MeshWriter{Position, Normal, FDC, Scale, Rotation as double, unspecified on}", Props: []WProp{
		{"Position", 3, "double", []string{"x", "y", "z"}},
		{"Normal", 3, "double", []string{"nx", "ny", "nz"}},
		{"FDC", 3, "double", []string{"f_dc_0", "f_dc_1", "f_dc_2"}},
		{"Scale", 3, "double", []string{"scale_0", "scale_1", "scale_2"}},
		{"Rotation", 4, "double", []string{"rot_0", "rot_1", "rot_2", "rot_3"}},
	}}
	for r := range f64Ladder {
		val := "dlad:" + strconv.Itoa(r)
		attrs := []AttrCfg{{"Position", 3, val}, {"Normal", 3, val}, {"FDC", 3, val}, {"Scale", 3, val}, {"Rotation", 4, val}}
		for _, sh := range shapes {
			if next() {
				k.eval(Case{Scope: "W/double-ladder/" + sh.name, Mesh: MeshCfg{Topo: sh.topo, V: sh.v, Idx: sh.idx, Attrs: attrs}, W: dbl, Readers: r%8 == 0})
			}
		}
	}
	k.c.Bound("W.wide_records", fmt.Sprintf("40, 200, 400, 1000 user scalars (default writer) and 16 double components over %d doubles 1e-300..1e300, MaxFloat64, the smallest subnormal (double-typed writers), on a 3-point cloud and a welded two-triangle mesh, all encodings", len(f64Ladder)))
}

func (k checker) customTypes(next func() bool) {
	c := k.c
	shapes := []shape{
		{"cloud-3", "point", 3, []int{0, 1, 2}},
		{"two-triangles-welded", "tri", 4, []int{0, 1, 2, 2, 1, 3}},
		{"one-triangle-reversed", "tri", 3, []int{2, 1, 0}},
	}
	type subject struct {
		attr  AttrCfg
		names []string
	}
	subjects := []subject{
		{AttrCfg{"Position", 3, ""}, []string{"x", "y", "z"}},
		{AttrCfg{"Opacity", 1, ""}, []string{"opacity"}},
		{AttrCfg{"Intensity", 1, ""}, []string{"Intensity"}},
		{AttrCfg{"TexCoord", 2, ""}, []string{"s", "t"}},
		{AttrCfg{"Normal", 3, ""}, []string{"nx", "ny", "nz"}},
		{AttrCfg{"Color", 3, ""}, []string{"red", "green", "blue"}},
		{AttrCfg{"Color", 4, ""}, []string{"red", "green", "blue", "alpha"}},
		{AttrCfg{"Rotation", 4, ""}, []string{"rot_0", "rot_1", "rot_2", "rot_3"}},
	}
	types := []string{"uchar", "int", "float", "double"}
	c.Bound("C.custom_writer_types", types)
	c.Bound("C.subjects", len(subjects))
	valFor := func(t string, oor bool) string {
		if t == "uchar" {
			if oor {
				return "oor"
			}
			return "unit"
		}
		return "gen"
	}
	for _, sh := range shapes {
		for _, sub := range subjects {
			for _, st := range types {
				for _, pt := range types {
					if sub.attr.Name == "Position" && pt != st {
						continue
					}
					for order := 0; order < 2; order++ {
						for _, unspec := range []bool{true, false} {
							for _, ptr := range []bool{false, true} {
								for _, oor := range []bool{false, true} {
									if oor && st != "uchar" {
										continue
									}
									if c.Expired() {
										return
									}
									if !next() {
										continue
									}
									mc := MeshCfg{Topo: sh.topo, V: sh.v, Idx: sh.idx}
									pos := AttrCfg{"Position", 3, valFor(pt, false)}
									posW := WProp{"Position", 3, pt, []string{"x", "y", "z"}}
									subA := sub.attr
									subA.Val = valFor(st, oor)
									subW := WProp{subA.Name, subA.W, st, sub.names}
									var props []WProp
									if sub.attr.Name == "Position" {
										mc.Attrs = []AttrCfg{subA}
										props = []WProp{subW}
										if order == 1 {
											continue
										}
									} else if order == 0 {
										mc.Attrs = []AttrCfg{pos, subA}
										props = []WProp{posW, subW}
									} else {
										mc.Attrs = []AttrCfg{pos, subA}
										props = []WProp{subW, posW}
									}
									// a user scalar no writer claims: only "unspecified on" stores it
									mc.Attrs = append(mc.Attrs, AttrCfg{"Class", 1, "gen"})
									w := WCfg{Kind: "mw", Unspec: unspec, Ptr: ptr, Props: props,
										Label: fmt.Sprintf("MeshWriter{%s/%d as %s, Position as %s, order %d, unspecified %v, ptr %v}", subA.Name, subA.W, st, pt, order, unspec, ptr)}
									k.eval(Case{Scope: "C/custom-writer-types/" + sh.name, Mesh: mc, W: w, Readers: true})
								}
							}
						}
					}
				}
			}
		}
	}
}

func (k checker) materials(next func() bool) {
	c := k.c
	shapes := []shape{
		{"cloud-3", "point", 3, []int{0, 1, 2}},
		{"two-triangles-welded", "tri", 4, []int{0, 1, 2, 2, 1, 3}},
		{"two-triangles-unwelded", "tri", 6, []int{0, 1, 2, 3, 4, 5}},
		{"no-triangle", "tri", 3, []int{}},
	}
	c.Bound("D.material_layouts", 4)
	for _, sh := range shapes {
		for mat := 0; mat < 4; mat++ {
			for _, mix := range mixesB {
				if c.Expired() {
					return
				}
				if !next() {
					continue
				}
				attrs := append([]AttrCfg{}, mix.attrs...)
				attrs[0].Val = "gen"
				mc := MeshCfg{Topo: sh.topo, V: sh.v, Idx: sh.idx, Attrs: attrs, Mat: mat}
				for _, w := range writersAB() {
					k.eval(Case{Scope: "D/materials/" + sh.name, Mesh: mc, W: w, Readers: true, Files: true})
				}
			}
		}
	}
}

// ---------------------------------------------------------------------------------------------
// replay
// ---------------------------------------------------------------------------------------------

func replay(c *core.Ctx) {
	var cs Case
	if err := json.Unmarshal(c.Replay, &cs); err != nil {
		c.HarnessError("bad case: %v", err)
		return
	}
	if cs.SaveFormat <= -31 {
		checker{c}.sinks(-cs.SaveFormat - 31)
		return
	}
	if cs.SaveFormat <= -21 {
		checker{c}.loadAfterReplace(-cs.SaveFormat - 21)
		return
	}
	if cs.SaveFormat <= -11 {
		checker{c}.afterFailedRead(-cs.SaveFormat - 11)
		return
	}
	if cs.SaveFormat < 0 {
		checker{c}.afterFailedWrite(-cs.SaveFormat - 1)
		return
	}
	if cs.SaveFormat > 0 {
		checker{c}.saveOver(cs.SaveSeq, cs.SaveFormat-1)
		return
	}
	if cs.DupWriter > 0 {
		checker{c}.dupNames(cs.DupTopo, cs.DupWriter-1, cs.DupFormat-1)
		return
	}
	checker{c}.eval(cs)
}

var _ = sort.Strings
