package c20

// Structured point sets beyond the 5×5 lattice.  Subsets of up to 6 (8) lattice points never make
// one insertion invalidate more than a handful of triangles; a threshold inside the cavity handling
// (a fixed-size table, a bit mask) is reached only by a point that lies inside many circumcircles at
// once.  The parabola family does that with exact integer coordinates: P_i = (i, i²), i = 1..n, are in
// convex position with no three collinear and no four cocircular (four points of y = x² are
// cocircular iff their abscissae sum to zero), their Delaunay triangulation has n−2 triangles, and
// the interior point q chosen here lies strictly inside the circumcircle of almost all of them.
// Coordinates stay below 2^12, so the int64 predicates of the oracle remain exact.

import (
	"math"
	"fmt"

	"verif/harness/core"
)

// parabola returns P_1..P_n and the interior point with the largest cavity (number of Delaunay
// triangles of P whose circumcircle strictly contains it) among integer candidates in general
// position with P; cavity is that number.
func parabola(n int) (pts []P, q P, cavity int) {
	for i := 1; i <= n; i++ {
		pts = append(pts, P{int64(i), int64(i * i)})
	}
	// Delaunay triangles of a point set in convex position, by definition
	var dt [][3]P
	for i := 0; i < n; i++ {
		for j := i + 1; j < n; j++ {
			for k := j + 1; k < n; k++ {
				a, b, c := pts[i], pts[j], pts[k]
				s := int64(sgn(Orient(a, b, c)))
				empty := true
				for m := 0; m < n && empty; m++ {
					if m != i && m != j && m != k && InCircle(a, b, c, pts[m])*s > 0 {
						empty = false
					}
				}
				if empty {
					dt = append(dt, [3]P{a, b, c})
				}
			}
		}
	}
	general := func(c P) bool {
		for i := 0; i < n; i++ {
			for j := i + 1; j < n; j++ {
				if Orient(pts[i], pts[j], c) == 0 {
					return false
				}
				for k := j + 1; k < n; k++ {
					if InCircle(pts[i], pts[j], pts[k], c) == 0 {
						return false
					}
				}
			}
		}
		return true
	}
	best := -1
	N := int64(n)
	for x := int64(2); x < N; x++ {
		lo := x*x + 1
		hi := 1 + (x-1)*(N*N-1)/(N-1) - 1 // strictly below the chord from P_1 to P_n
		for _, y := range []int64{lo, lo + 1, (3*lo + hi) / 4, (lo + hi) / 2, hi} {
			if y < lo || y > hi || Orient(pts[0], pts[n-1], P{x, y}) >= 0 {
				continue
			}
			cnt := 0
			c := P{x, y}
			for _, t := range dt {
				if InCircle(t[0], t[1], t[2], c)*int64(sgn(Orient(t[0], t[1], t[2]))) > 0 {
					cnt++
				}
			}
			if cnt > best && general(c) {
				best, q = cnt, c
			}
		}
	}
	return pts, q, best
}

func (k checker) familyBookkeeping(cs Case, tr transform, label string, fs []finding, tris [][3]int, crashSite string) {
	c := k.c
	scope := "family/" + cs.Family
	c.Eval(scope, label)
	c.Sample(scope, map[string]any{"case": cs, "triangles": len(tris), "outcome": label})
	if len(tris) > 0 {
		c.Nontrivial(cs.Family, fmt.Sprint(cs.Pts), tr.Name, cs.Layout)
	}
	if label == "empty" && c.Args["demand_nonempty"] == "1" {
		fs = append(fs, finding{clNonEmpty, "no triangles returned"})
	}
	for _, f := range fs {
		s := site
		if f.clause == clCrash && crashSite != "" {
			s = crashSite
		}
		pts := fmt.Sprint(cs.Pts)
		if len(pts) > 400 {
			pts = pts[:400] + "…"
		}
		c.Violate(core.Violation{Site: s, Clause: f.clause, Class: cs.Family + "/" + tr.Name + "/" + layoutNames[cs.Layout],
			Detail: fmt.Sprintf("%d points (insertion order) %s, transform %s: %s", len(cs.Pts), pts, tr.Name, trim(f.detail, 700)), Case: cs})
	}
}

func trim(s string, n int) string {
	if len(s) > n {
		return s[:n] + "…"
	}
	return s
}

func (k checker) runFamilies() {
	c := k.c
	sizes := []int{6, 8, 12, 16, 20, 23, 24, 25, 27, 30, 33, 36, 40, 44, 48}
	if c.Thorough() {
		sizes = append(sizes, 52, 56, 60, 64)
	}
	trs := []transform{transforms[0]}
	for _, name := range []string{"scale=2^-10", "offset=(+1024,-1024)", "scale=2^-10,offset=(+2^10,-2^10)"} {
		if t, ok := transformByName(name); ok {
			trs = append(trs, t)
		}
	}
	cav := map[string]int{}
	for _, n := range sizes {
		if !c.Next() {
			continue
		}
		if c.Expired() {
			return
		}
		pts, q, cavity := parabola(n)
		if cavity < 0 {
			c.HarnessError("parabola(%d): no interior candidate in general position", n)
			continue
		}
		cav[fmt.Sprintf("n=%d", n)] = cavity
		with := func(order []P, at int) []P { // q inserted at position at
			out := append([]P{}, order[:at]...)
			out = append(out, q)
			return append(out, order[at:]...)
		}
		rev := make([]P, n)
		var evenOdd []P
		for i, p := range pts {
			rev[n-1-i] = p
		}
		for i := 0; i < n; i += 2 {
			evenOdd = append(evenOdd, pts[i])
		}
		for i := 1; i < n; i += 2 {
			evenOdd = append(evenOdd, pts[i])
		}
		fam := fmt.Sprintf("parabola(n=%d)+interior-point(cavity=%d)", n, cavity)
		for _, tr := range trs {
			ok := true
			for _, p := range append(append([]P{}, pts...), q) {
				ok = ok && tr.exact(p)
			}
			if !ok {
				c.HarnessError("transform %s is not exact on parabola(%d)", tr.Name, n)
				continue
			}
			for layout := 0; layout < numLayouts; layout++ {
				for _, order := range [][]P{pts, rev, evenOdd} {
					k.checkAs(with(order, n), tr, "", layout, fam)   // q last: one insertion invalidates `cavity` triangles
					k.checkAs(with(order, 0), tr, "", layout, fam)   // q first
					k.checkAs(with(order, n/2), tr, "", layout, fam) // q in the middle
				}
				k.checkAs(pts, tr, "", layout, fmt.Sprintf("parabola(n=%d)", n))
			}
		}
	}
	c.Bound("families.parabola", fmt.Sprintf("P_i=(i,i^2), i=1..n for n in %v, plus the interior integer point lying strictly inside the most circumcircles (cavity sizes reached in this shard: %v); orders: ascending, descending, even-then-odd, the interior point last / first / in the middle; %d transforms x 3 slice layouts", sizes, cav, len(trs)))
}


// scattered: a fixed sequence of pairwise distinct pseudo-random integer points in [0, 8192)^2 (a
// 64-bit LCG; coordinates small enough for the exact in-circle determinant). The first n of them
// are "the point set of size n".
func scattered(n int) []P {
	seen := map[P]bool{}
	var out []P
	s := uint64(0x9E3779B97F4A7C15)
	for len(out) < n {
		s = s*6364136223846793005 + 1442695040888963407
		x := int64((s >> 33) % 8192)
		s = s*6364136223846793005 + 1442695040888963407
		y := int64((s >> 33) % 8192)
		p := P{x, y}
		if !seen[p] {
			seen[p] = true
			out = append(out, p)
		}
	}
	return out
}

// runCounts: every point count from 3 up to a bound (a threshold, stride or block size inside the
// triangulator shows only at counts related to it), on the first n points of one scattered sequence.
// Point sets this large are not screened for collinear triples / cocircular quadruples: the oracle's
// circumcircle and area tests are strict, so such a coincidence cannot raise an alarm by itself.
func (k checker) runCounts() {
	c := k.c
	nmax := 2100
	if c.Thorough() {
		nmax = 4200
	}
	all := scattered(nmax)
	id := transforms[0]
	done := 0
	for n := 3; n <= nmax; n++ {
		if !c.Next() {
			continue
		}
		if c.Expired() {
			break
		}
		layout := 0
		if n%64 == 0 {
			layout = 3
		}
		if n%64 == 32 {
			layout = 4
		}
		k.checkAs(all[:n], id, "", layout, "scattered(every point count)")
		done++
	}
	c.Bound("families.every_point_count", fmt.Sprintf("the first n points of one scattered integer sequence for every n = 3..%d (every 64th in a re-used buffer); above %d triangles the pairwise interior test is replaced by: no directed edge used twice", nmax, pairwiseLimit))
}

// annulus: n integer points near a circle of radius ~2000, each at a radius of its own within 0.5 % (general
// position is verified, never assumed), plus a point near the centre.  The Delaunay triangulation
// of the ring is a set of n-2 thin triangles whose circumcircles all contain the centre: inserting
// the centre point last invalidates (nearly) all of them in one step — cavities far larger than any
// the lattice subsets, the parabola or scattered points produce (measured on those: at most ~20).
func annulus(n int) (ring []P, centre P, ok bool) {
	for attempt := 0; attempt < 40; attempt++ {
		ring = ring[:0]
		for i := 0; i < n; i++ {
			th := 2 * math.Pi * (float64(i) + 0.37) / float64(n)
			r := 2000 + float64((i*37+attempt*11)%29)*0.25 + float64(attempt)
			ring = append(ring, P{int64(math.Round(r * math.Cos(th))), int64(math.Round(r * math.Sin(th)))})
		}
		centre = P{int64(3 + attempt), int64(-2 - 2*attempt)}
		if degeneracy(append(append([]P{}, ring...), centre)) == "" {
			return ring, centre, true
		}
	}
	return nil, P{}, false
}

func (k checker) runAnnulus() {
	c := k.c
	sizes := []int{8, 12, 16, 24, 31, 32, 33, 40, 48, 63, 64, 65, 80, 100}
	if c.Thorough() {
		sizes = append(sizes, 128, 129, 160)
	}
	trs := []transform{transforms[0]}
	for _, name := range []string{"scale=2^-10", "scale=2^-10,offset=(+2^10,-2^10)"} {
		if t, ok := transformByName(name); ok {
			trs = append(trs, t)
		}
	}
	for _, n := range sizes {
		if !c.Next() {
			continue
		}
		if c.Expired() {
			return
		}
		ring, q, ok := annulus(n)
		if !ok {
			c.HarnessError("annulus(%d): no instance in general position", n)
			continue
		}
		with := func(order []P, at int) []P {
			out := append([]P{}, order[:at]...)
			out = append(out, q)
			return append(out, order[at:]...)
		}
		rev := make([]P, n)
		var stride []P
		for i, p := range ring {
			rev[n-1-i] = p
		}
		for s := 0; s < 3; s++ {
			for i := s; i < n; i += 3 {
				stride = append(stride, ring[i])
			}
		}
		fam := fmt.Sprintf("annulus(n=%d)+centre(cavity=%d)", n, cavityOf(ring, q))
		for _, tr := range trs {
			okT := true
			for _, p := range append(append([]P{}, ring...), q) {
				okT = okT && tr.exact(p)
			}
			if !okT {
				continue
			}
			for layout := 0; layout < numLayouts; layout++ {
				for _, order := range [][]P{ring, rev, stride} {
					k.checkAs(with(order, n), tr, "", layout, fam)
					k.checkAs(with(order, 0), tr, "", layout, fam)
					k.checkAs(with(order, n/2), tr, "", layout, fam)
				}
			}
		}
	}
	c.Bound("families.annulus", fmt.Sprintf("n integer points near a circle of radius ~2000 (own radius each, general position verified) plus a point near the centre, n in %v; ring orders: by angle, reversed, every third; the centre last / first / in the middle; %d transforms x %d slice layouts", sizes, len(trs), numLayouts))
}

// cavityOf: the number of Delaunay triangles of pts (by definition: empty circumcircle) whose
// circumcircle strictly contains q.
func cavityOf(pts []P, q P) int {
	n, cnt := len(pts), 0
	for i := 0; i < n; i++ {
		for j := i + 1; j < n; j++ {
			for k := j + 1; k < n; k++ {
				a, b, c := pts[i], pts[j], pts[k]
				s := int64(sgn(Orient(a, b, c)))
				if InCircle(a, b, c, q)*s <= 0 {
					continue
				}
				empty := true
				for m := 0; m < n && empty; m++ {
					if m != i && m != j && m != k && InCircle(a, b, c, pts[m])*s > 0 {
						empty = false
					}
				}
				if empty {
					cnt++
				}
			}
		}
	}
	return cnt
}
