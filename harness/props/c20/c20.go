// Package c20: triangulation.BowyerWatson yields a consistently wound Delaunay triangulation
// (DESIGN §4 C20).
//
// Bounded-exhaustive: every subset of size 3..K of the 5×5 integer lattice, every insertion order
// (permutation of the input slice) of the general-position subsets up to size P, each under a set
// of exact similarity transforms (power-of-two scales, integer offsets — all coordinates stay
// dyadic, so the float inputs are exact images of the lattice points).
//
// Oracle: exact integer predicates evaluated on the ORIGINAL lattice coordinates. The transforms
// are orientation preserving similarities (positive scale + translation), so orientation, overlap
// and in-circle relations of the transformed points are exactly those of the lattice points; the
// harness verifies bit-exactly that mesh vertex i is the transformed input point i, which ties the
// two together. |coordinate differences| ≤ 4, so every determinant is < 2^13: int64 is exact.
package c20

import (
	"encoding/json"
	"fmt"
	"io"
	"log"
	"sort"
	"strings"

	"github.com/EliCDavis/polyform/modeling"
	"github.com/EliCDavis/polyform/modeling/triangulation"
	"github.com/EliCDavis/vector/vector2"

	"verif/harness/core"
)

func init() { core.Register(core.Check{ID: "C20", Run: run, Replay: replay}) }

const site = "triangulation.BowyerWatson"

// oracle clauses, in the property's words
const (
	clCrash    = "the triangulation is produced (no runtime crash)"
	clVertex   = "vertex i is input point i"
	clOnly     = "the triangulation uses only the input points as vertices"
	clWinding  = "every triangle has the same winding"
	clArea     = "every triangle has positive area"
	clOverlap  = "no two triangles overlap"
	clDelaunay = "no triangle's circumcircle strictly contains another input point"
	clNonEmpty = "the result is a triangulation of the input (at least one triangle)" // only with demand_nonempty=1
)

var clauseShort = map[string]string{
	clCrash: "crash", clVertex: "vertex-identity", clOnly: "foreign-vertex", clWinding: "winding",
	clArea: "zero-area", clOverlap: "overlap", clDelaunay: "circumcircle",
}

// ---------------------------------------------------------------------------------------------
// exact predicates on lattice points
// ---------------------------------------------------------------------------------------------

// P is a lattice point.
type P struct{ X, Y int64 }

// Orient is twice the signed area of (a,b,c): > 0 counter-clockwise, 0 collinear.
func Orient(a, b, c P) int64 {
	return (b.X-a.X)*(c.Y-a.Y) - (c.X-a.X)*(b.Y-a.Y)
}

// InCircle is the lifted 3×3 determinant: for a counter-clockwise (a,b,c) it is > 0 iff d lies
// strictly inside the circumcircle, 0 iff on it; the sign flips with the orientation of (a,b,c).
func InCircle(a, b, c, d P) int64 {
	ax, ay := a.X-d.X, a.Y-d.Y
	bx, by := b.X-d.X, b.Y-d.Y
	cx, cy := c.X-d.X, c.Y-d.Y
	return (ax*ax+ay*ay)*(bx*cy-cx*by) -
		(bx*bx+by*by)*(ax*cy-cx*ay) +
		(cx*cx+cy*cy)*(ax*by-bx*ay)
}

func sgn(v int64) int {
	switch {
	case v > 0:
		return 1
	case v < 0:
		return -1
	}
	return 0
}

// InteriorsDisjoint decides exactly whether two non-degenerate triangles have disjoint interiors.
// Separating-axis theorem for open convex polygons: the interiors are disjoint iff the supporting
// line of one of the six edges has the other triangle entirely in the closed half-plane opposite
// to the edge's own triangle (the Minkowski difference A⊕(−B) is a convex polygon whose edges are
// parallel to edges of A or B; 0 is outside its interior iff one of those edge lines separates).
// Touching along an edge, at a vertex, or a vertex on an edge is "disjoint interiors"; equal
// triangles, containment and proper crossings are overlaps.
func InteriorsDisjoint(a, b [3]P) bool {
	return separates(a, b) || separates(b, a)
}

func separates(t, o [3]P) bool {
	s := sgn(Orient(t[0], t[1], t[2]))
	for i := 0; i < 3; i++ {
		e0, e1 := t[i], t[(i+1)%3]
		sep := true
		for _, q := range o {
			if sgn(Orient(e0, e1, q))*s > 0 { // strictly on the triangle's own side
				sep = false
				break
			}
		}
		if sep {
			return true
		}
	}
	return false
}

// hull2 is twice the area of the convex hull (monotone chain, exact).
func hull2(pts []P) int64 {
	p := append([]P{}, pts...)
	sort.Slice(p, func(i, j int) bool {
		if p[i].X != p[j].X {
			return p[i].X < p[j].X
		}
		return p[i].Y < p[j].Y
	})
	var h []P
	for pass := 0; pass < 2; pass++ {
		start := len(h)
		for _, q := range p {
			for len(h) >= start+2 && Orient(h[len(h)-2], h[len(h)-1], q) <= 0 {
				h = h[:len(h)-1]
			}
			h = append(h, q)
		}
		h = h[:len(h)-1]
		for i, j := 0, len(p)-1; i < j; i, j = i+1, j-1 {
			p[i], p[j] = p[j], p[i]
		}
	}
	var a int64
	for i := range h {
		j := (i + 1) % len(h)
		a += h[i].X*h[j].Y - h[j].X*h[i].Y
	}
	if a < 0 {
		a = -a
	}
	return a
}

// degeneracy of a point set: "" = general position.
func degeneracy(pts []P) string {
	n := len(pts)
	for i := 0; i < n; i++ {
		for j := i + 1; j < n; j++ {
			for k := j + 1; k < n; k++ {
				if Orient(pts[i], pts[j], pts[k]) == 0 {
					return "collinear-triple"
				}
			}
		}
	}
	for i := 0; i < n; i++ {
		for j := i + 1; j < n; j++ {
			for k := j + 1; k < n; k++ {
				for l := k + 1; l < n; l++ {
					if InCircle(pts[i], pts[j], pts[k], pts[l]) == 0 {
						return "cocircular-quadruple"
					}
				}
			}
		}
	}
	return ""
}

// ---------------------------------------------------------------------------------------------
// transforms (exact on dyadic coordinates)
// ---------------------------------------------------------------------------------------------

type transform struct {
	Name       string
	Scale      float64
	OffX, OffY float64
}

var transforms = []transform{
	{"identity", 1, 0, 0},
	{"scale=2^10", 1024, 0, 0},
	{"scale=2^-10", 1.0 / 1024, 0, 0},
	{"scale=2^-3", 1.0 / 8, 0, 0},
	// SuperTriangle puts its apex 20 heights above a base that lies a margin below the points;
	// with the pinned tree's absolute margin of 2 the apex clears the points iff 19·height > 2.
	// 27/256·1 and 27/1024·4 = 0.10547 sit just above that threshold 2/19 = 0.10526 (dyadic, so
	// still exact): the boundary width of that comparison for sets of lattice height 1 and 4.
	{"scale=27/256", 27.0 / 256, 0, 0},
	{"scale=27/1024", 27.0 / 1024, 0, 0},
	{"offset=(+1024,+1024)", 1, 1024, 1024},
	{"offset=(-1024,-1024)", 1, -1024, -1024},
	{"offset=(+1024,-1024)", 1, 1024, -1024},
	{"offset=(-1024,+1024)", 1, -1024, 1024},
	// widely different scales and offsets (the quantifier names them): spacing 2^-20 (an absolute
	// tolerance in a predicate of degree 4 shows below spacing ~1e-3), and offset/spacing ratios of
	// 2^20 and 2^30 (a predicate evaluated on absolute instead of relative coordinates loses all its
	// digits there). All images are exactly representable, so the oracle's integer predicates apply.
	{"scale=2^-20", 1.0 / (1 << 20), 0, 0},
	{"offset=(+2^30,-2^29)", 1, 1 << 30, -(1 << 29)},
	{"scale=2^-10,offset=(+2^10,-2^10)", 1.0 / 1024, 1024, -1024},
	{"scale=2^-10,offset=(-2^20,+2^19)", 1.0 / 1024, -(1 << 20), 1 << 19},
}

// the transforms under which the non-default slice layouts are run
var layoutTransforms = []transform{
	{"identity", 1, 0, 0},
	{"scale=2^-10,offset=(+2^10,-2^10)", 1.0 / 1024, 1024, -1024},
}

func transformByName(n string) (transform, bool) {
	for _, t := range transforms {
		if t.Name == n {
			return t, true
		}
	}
	return transform{}, false
}

func (t transform) apply(p P) vector2.Float64 {
	return vector2.New(float64(p.X)*t.Scale+t.OffX, float64(p.Y)*t.Scale+t.OffY)
}

// exact reports whether the image of p maps back to p exactly (harness self-check).
func (t transform) exact(p P) bool {
	v := t.apply(p)
	return (v.X()-t.OffX)/t.Scale == float64(p.X) && (v.Y()-t.OffY)/t.Scale == float64(p.Y)
}

// ---------------------------------------------------------------------------------------------
// one case
// ---------------------------------------------------------------------------------------------

// Case is the replay record: lattice points in insertion order + transform.
type Case struct {
	Pts [][2]int64 `json:"pts"`
	T   string     `json:"transform"`
	// Layout of the slice handed to the library: 0 = cap == len, 1 = eight elements of spare capacity,
	// 2 = a prefix of a longer slice whose tail holds other points, 3 = a buffer that has been
	// triangulated before while it held other points inside the same bounding box (the points were
	// then moved in place)
	Layout int `json:"layout,omitempty"`
	// Family names a structured (non-lattice) point set (families.go); empty for lattice subsets
	Family string `json:"family,omitempty"`
}

var layoutNames = [5]string{"exact-capacity", "spare-capacity", "prefix-of-longer-slice", "buffer-triangulated-before-with-other-points", "spare-capacity-buffer-triangulated-before-with-other-points"}

const numLayouts = 5

// pairwiseLimit: above this many triangles the quadratic interior-overlap test is replaced by its
// linear consequence for consistently wound triangles (no directed edge used twice).
const pairwiseLimit = 600

type checker struct{ c *core.Ctx }

type finding struct{ clause, detail string }

func isSorted(pts []P) bool {
	for i := 1; i < len(pts); i++ {
		a, b := pts[i-1], pts[i]
		if a.Y > b.Y || (a.Y == b.Y && a.X >= b.X) {
			return false
		}
	}
	return true
}

// canonTris: each triangle rotated so that its smallest index comes first (cyclic order kept),
// list sorted — the library emits triangles in map-iteration order, which the contract leaves open.
func canonTris(idx []int) [][3]int {
	out := make([][3]int, 0, len(idx)/3)
	for i := 0; i+2 < len(idx); i += 3 {
		t := [3]int{idx[i], idx[i+1], idx[i+2]}
		for r := 0; r < 2; r++ {
			if t[0] <= t[1] && t[0] <= t[2] {
				break
			}
			t = [3]int{t[1], t[2], t[0]}
		}
		out = append(out, t)
	}
	sort.Slice(out, func(i, j int) bool {
		for k := 0; k < 3; k++ {
			if out[i][k] != out[j][k] {
				return out[i][k] < out[j][k]
			}
		}
		return false
	})
	return out
}

// evaluate runs the library on the transformed points and applies every oracle clause.
// Returns the outcome label, the findings (one per violated clause) and the canonical triangles.
func evaluate(pts []P, tr transform, layout int) (label string, fs []finding, tris [][3]int, crashSite string) {
	n := len(pts)
	mine := make([]vector2.Float64, n) // the harness's own copy
	var in []vector2.Float64           // fresh slice handed to the library
	switch layout {
	case 1, 4:
		in = make([]vector2.Float64, n, n+8)
	case 2:
		long := make([]vector2.Float64, n+5)
		for i := n; i < len(long); i++ {
			long[i] = tr.apply(P{int64(7 * (i - n + 1)), int64(-3 * (i - n + 2))}) // not part of the input
		}
		in = long[:n]
	default:
		in = make([]vector2.Float64, n)
	}
	for i, p := range pts {
		mine[i] = tr.apply(p)
		in[i] = mine[i]
	}
	if layout == 3 || layout == 4 {
		// an earlier frame: the points that do not attain the bounding box change places cyclically
		// (same buffer, same length, same bounding box), the buffer is triangulated, and then the
		// points of this case are written over it in place
		var xmin, xmax, ymin, ymax int64 = pts[0].X, pts[0].X, pts[0].Y, pts[0].Y
		for _, p := range pts {
			xmin, xmax, ymin, ymax = min(xmin, p.X), max(xmax, p.X), min(ymin, p.Y), max(ymax, p.Y)
		}
		var inner []int
		for i, p := range pts {
			if p.X != xmin && p.X != xmax && p.Y != ymin && p.Y != ymax {
				inner = append(inner, i)
			}
		}
		for j, i := range inner {
			in[i] = mine[inner[(j+1)%len(inner)]]
		}
		core.Guard(func() { triangulation.BowyerWatson(in) })
		copy(in, mine)
	}
	var mesh modeling.Mesh
	var idx []int
	var pos [][3]float64
	havePos := false
	o := core.Guard(func() {
		mesh = triangulation.BowyerWatson(in)
		ix := mesh.Indices()
		idx = make([]int, ix.Len())
		for i := range idx {
			idx[i] = ix.At(i)
		}
		if mesh.HasFloat3Attribute(modeling.PositionAttribute) {
			a := mesh.Float3Attribute(modeling.PositionAttribute)
			pos = make([][3]float64, a.Len())
			for i := range pos {
				v := a.At(i)
				pos[i] = [3]float64{v.X(), v.Y(), v.Z()}
			}
			havePos = true
		}
	})
	if o.Crash() {
		return "VIOL:crash", []finding{{clCrash, "runtime panic: " + o.Msg + " at " + o.Stack}}, nil, core.TopFrame(o.Stack)
	}
	if o.Reported {
		return "reported-failure", nil, nil, ""
	}
	add := func(clause, format string, a ...any) {
		for _, f := range fs {
			if f.clause == clause {
				return
			}
		}
		fs = append(fs, finding{clause, fmt.Sprintf(format, a...)})
	}
	tris = canonTris(idx)

	// vertex i is input point i: Position = (x, 0, y), exactly n vertices, bit-exact copies
	switch {
	case !havePos:
		add(clVertex, "result mesh has no Position attribute")
	case len(pos) != n:
		add(clVertex, "mesh has %d vertices for %d input points", len(pos), n)
	default:
		for i := range pos {
			if pos[i] != [3]float64{mine[i].X(), 0, mine[i].Y()} {
				add(clVertex, "vertex %d is %v, input point %d is (%v, 0, %v)", i, pos[i], i, mine[i].X(), mine[i].Y())
				break
			}
		}
	}
	// only input points referenced
	if len(idx)%3 != 0 {
		add(clOnly, "index count %d is not a multiple of 3", len(idx))
	}
	var good [][3]int // triangles whose corners all refer to input points
	for _, t := range tris {
		ok := true
		for _, v := range t {
			if v < 0 || v >= n {
				add(clOnly, "triangle %v refers to vertex %d; there are %d input points", t, v, n)
				ok = false
			}
		}
		if ok {
			good = append(good, t)
		}
	}
	geo := make([][3]P, len(good))
	for i, t := range good {
		geo[i] = [3]P{pts[t[0]], pts[t[1]], pts[t[2]]}
	}
	// winding + area
	first := 0
	var area2 int64
	var solid []int // indices into good/geo of non-degenerate triangles
	for i, g := range geo {
		a := Orient(g[0], g[1], g[2])
		s := sgn(a)
		if s == 0 {
			add(clArea, "triangle %v = %v has zero area", good[i], g)
			continue
		}
		solid = append(solid, i)
		area2 += a * int64(s)
		if first == 0 {
			first = s
		} else if s != first {
			add(clWinding, "triangle %v winds opposite to triangle %v (triangles %v)", good[i], good[solid[0]], good)
		}
	}
	// overlap
	if len(solid) > pairwiseLimit {
		used := make(map[[2]int]int, 3*len(solid))
		for _, i := range solid {
			t := good[i]
			for e := 0; e < 3; e++ {
				d := [2]int{t[e], t[(e+1)%3]}
				if j, dup := used[d]; dup {
					add(clOverlap, "triangles %v and %v both run along the directed edge %v: consistently wound triangles sharing a directed edge overlap", good[j], t, d)
				}
				used[d] = i
			}
		}
	}
	for x := 0; x < len(solid) && len(solid) <= pairwiseLimit; x++ {
		for y := x + 1; y < len(solid); y++ {
			i, j := solid[x], solid[y]
			if !InteriorsDisjoint(geo[i], geo[j]) {
				add(clOverlap, "triangles %v = %v and %v = %v have intersecting interiors (triangles %v)", good[i], geo[i], good[j], geo[j], good)
			}
		}
	}
	// empty circumcircles
circles:
	for _, i := range solid {
		g, t := geo[i], good[i]
		s := sgn(Orient(g[0], g[1], g[2]))
		for q := 0; q < n; q++ {
			if q == t[0] || q == t[1] || q == t[2] {
				continue
			}
			if sgn(InCircle(g[0], g[1], g[2], pts[q]))*s > 0 {
				add(clDelaunay, "input point %d = %v lies strictly inside the circumcircle of triangle %v = %v (triangles %v)", q, pts[q], t, g, trimTris(good))
				break circles // one finding per clause
			}
		}
	}
	if len(fs) > 0 {
		var names []string
		for _, f := range fs {
			names = append(names, clauseShort[f.clause])
		}
		sort.Strings(names)
		return "VIOL:" + strings.Join(names, "+"), fs, tris, ""
	}
	switch {
	case len(tris) == 0:
		label = "empty"
	case area2 == hull2(pts):
		label = "ok-hull-covered"
	default:
		label = "ok-hull-not-covered"
	}
	return label, nil, tris, ""
}

// trimTris keeps violation details of large triangulations readable.
func trimTris(t [][3]int) any {
	if len(t) > 40 {
		return fmt.Sprintf("%v … (%d triangles)", t[:40], len(t))
	}
	return t
}

func ptsOf(cs Case) []P {
	out := make([]P, len(cs.Pts))
	for i, p := range cs.Pts {
		out[i] = P{p[0], p[1]}
	}
	return out
}

func caseOf(pts []P, tr transform) Case {
	cs := Case{T: tr.Name}
	for _, p := range pts {
		cs.Pts = append(cs.Pts, [2]int64{p.X, p.Y})
	}
	return cs
}

// check executes one case and does the bookkeeping. deg is the degeneracy of the point set.
func (k checker) check(pts []P, tr transform, deg string) { k.checkAs(pts, tr, deg, 0, "") }

// checkAs: layout = how the input slice is laid out; family = "" for lattice subsets.
func (k checker) checkAs(pts []P, tr transform, deg string, layout int, family string) {
	c := k.c
	for _, p := range pts {
		if !tr.exact(p) {
			c.HarnessError("transform %s is not exact on %v", tr.Name, p)
			return
		}
	}
	label, fs, tris, crashSite := evaluate(pts, tr, layout)
	cs := caseOf(pts, tr)
	cs.Layout, cs.Family = layout, family
	if family != "" {
		k.familyBookkeeping(cs, tr, label, fs, tris, crashSite)
		return
	}
	if deg != "" {
		scope := "degenerate(" + deg + ")/" + tr.Name
		c.Eval(scope, label)
		c.Sample(scope, map[string]any{"case": cs, "triangles": tris, "outcome": label})
		return
	}
	scope := "general-position/" + tr.Name
	if layout != 0 {
		scope = "general-position/" + layoutNames[layout] + "/" + tr.Name
	}
	c.Eval(scope, label)
	c.Sample(scope, map[string]any{"case": cs, "triangles": tris, "outcome": label})
	if len(tris) > 0 {
		c.Nontrivial(fmt.Sprint(cs.Pts), tr.Name, layout)
	}
	class := tr.Name + "/sorted-order"
	if !isSorted(pts) {
		class = tr.Name + "/permuted-order"
	}
	if layout != 0 {
		class += "/" + layoutNames[layout]
	}
	// Optional stricter reading (job arg demand_nonempty=1, off by default): the statement's clauses
	// all quantify over the triangles of the result and hold vacuously for an empty result, so by
	// default "empty" is only an outcome label. The title's "Delaunay triangulation of the input"
	// implies at least one triangle for three or more points in general position.
	if label == "empty" && c.Args["demand_nonempty"] == "1" {
		fs = append(fs, finding{clNonEmpty, "no triangles returned"})
	}
	for _, f := range fs {
		s := site
		if f.clause == clCrash && crashSite != "" {
			s = crashSite
		}
		c.Violate(core.Violation{Site: s, Clause: f.clause, Class: class,
			Detail: fmt.Sprintf("points (insertion order) %v, transform %s: %s", cs.Pts, tr.Name, f.detail), Case: cs})
	}
}

// ---------------------------------------------------------------------------------------------
// enumeration
// ---------------------------------------------------------------------------------------------

const latticeN = 5

func latticePoint(i int) P { return P{int64(i % latticeN), int64(i / latticeN)} }

// forEachSubset enumerates the size-k subsets of the lattice in lexicographic index order.
func forEachSubset(k int, f func(pts []P) bool) {
	idx := make([]int, k)
	pts := make([]P, k)
	var rec func(d, start int) bool
	rec = func(d, start int) bool {
		if d == k {
			return f(pts)
		}
		for i := start; i <= latticeN*latticeN-(k-d); i++ {
			idx[d] = i
			pts[d] = latticePoint(i)
			if !rec(d+1, i+1) {
				return false
			}
		}
		return true
	}
	rec(0, 0)
}

// forEachPermutation calls f with every ordering of pts (lexicographic by position; the first is
// the given order). f must not keep the slice.
func forEachPermutation(pts []P, f func([]P)) {
	n := len(pts)
	perm := make([]int, n)
	for i := range perm {
		perm[i] = i
	}
	cur := make([]P, n)
	for {
		for i, j := range perm {
			cur[i] = pts[j]
		}
		f(cur)
		i := n - 2
		for i >= 0 && perm[i] > perm[i+1] {
			i--
		}
		if i < 0 {
			return
		}
		j := n - 1
		for perm[j] < perm[i] {
			j--
		}
		perm[i], perm[j] = perm[j], perm[i]
		for a, b := i+1, n-1; a < b; a, b = a+1, b-1 {
			perm[a], perm[b] = perm[b], perm[a]
		}
	}
}

// permAt6: the transforms under which the size-6 subsets are run in every insertion order (720 each);
// under the other transforms size-6 subsets run in canonical order only. Sizes <= 5 get every order
// under every transform. (Keeps the thorough tier at ~70 M triangulations.)
var permAt6 = map[string]bool{"identity": true, "scale=27/256": true, "offset=(+1024,-1024)": true}

type bounds struct{ maxSize, maxPermSize int }

func tierBounds(c *core.Ctx) bounds {
	if c.Thorough() {
		return bounds{maxSize: 8, maxPermSize: 6}
	}
	return bounds{maxSize: 6, maxPermSize: 4}
}

func run(c *core.Ctx) {
	log.SetOutput(io.Discard) // fillHole logs through the std logger on its winding fix-up
	k := checker{c}
	b := tierBounds(c)
	var names []string
	for _, t := range transforms {
		names = append(names, t.Name)
		for _, d := range []string{"collinear-triple", "cocircular-quadruple"} {
			c.ReportedOnly("degenerate("+d+")/"+t.Name, "point sets with three collinear or four cocircular points are outside the stated precondition (general position): run and labelled, never alarmed")
		}
	}
	c.Bound("lattice", "5x5 integer lattice, coordinates 0..4")
	c.Bound("subset_sizes", fmt.Sprintf("3..%d (every subset)", b.maxSize))
	c.Bound("all_insertion_orders_up_to_size", b.maxPermSize)
	if b.maxPermSize >= 6 {
		c.Bound("all_insertion_orders_at_size_6_only_under", []string{"identity", "scale=27/256", "offset=(+1024,-1024)"})
	}
	c.Bound("transforms", names)
	gpCount := map[string]int{}
	done := true
	for size := 3; size <= b.maxSize && done; size++ {
		gp := 0
		forEachSubset(size, func(pts []P) bool {
			deg := degeneracy(pts)
			if deg == "" {
				gp++
			}
			if !c.Next() {
				return true
			}
			if c.Expired() {
				done = false
				return false
			}
			for _, tr := range transforms {
				if deg == "" && size <= b.maxPermSize && (size <= 5 || permAt6[tr.Name]) {
					forEachPermutation(pts, func(q []P) { k.check(q, tr, "") })
				} else {
					k.check(pts, tr, deg)
				}
			}
			// the other layouts of the input slice (spare capacity, prefix of a longer slice): the
			// canonical order and its reverse under two transforms
			if deg == "" {
				rev := make([]P, len(pts))
				for i, p := range pts {
					rev[len(pts)-1-i] = p
				}
				for _, tr := range layoutTransforms {
					for layout := 1; layout < numLayouts; layout++ {
						k.checkAs(pts, tr, "", layout, "")
						k.checkAs(rev, tr, "", layout, "")
					}
				}
			}
			return true
		})
		if done {
			gpCount[fmt.Sprintf("n=%d", size)] = gp
		}
	}
	c.Bound("general_position_subsets", gpCount)
	c.Bound("input_slice_layouts", "every general-position subset also with eight elements of spare capacity, as a prefix of a longer slice, and in a buffer that was triangulated before while its inner points stood elsewhere (canonical order and its reverse, transforms identity and scale=2^-10,offset=(+2^10,-2^10))")
	if done {
		k.runFamilies()
		k.runAnnulus()
	}
	if !c.Expired() {
		k.runCounts()
	}
}

func replay(c *core.Ctx) {
	log.SetOutput(io.Discard)
	var cs Case
	if err := json.Unmarshal(c.Replay, &cs); err != nil {
		c.HarnessError("bad case: %v", err)
		return
	}
	tr, ok := transformByName(cs.T)
	if !ok || len(cs.Pts) < 3 {
		c.HarnessError("bad case: %+v", cs)
		return
	}
	pts := ptsOf(cs)
	if cs.Family != "" {
		checker{c}.checkAs(pts, tr, "", cs.Layout, cs.Family)
		return
	}
	checker{c}.checkAs(pts, tr, degeneracy(pts), cs.Layout, "")
}
