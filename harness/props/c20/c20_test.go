package c20

import (
	"math/big"
	"testing"
)

// circumcircle membership decided independently with rationals: centre from the perpendicular
// bisector equations, squared distances compared.
func insideRat(a, b, c, d P) int {
	r := func(v int64) *big.Rat { return new(big.Rat).SetInt64(v) }
	// 2*(b-a)·u = |b|²-|a|², 2*(c-a)·u = |c|²-|a|²
	a11, a12 := r(2*(b.X-a.X)), r(2*(b.Y-a.Y))
	a21, a22 := r(2*(c.X-a.X)), r(2*(c.Y-a.Y))
	b1 := r(b.X*b.X + b.Y*b.Y - a.X*a.X - a.Y*a.Y)
	b2 := r(c.X*c.X + c.Y*c.Y - a.X*a.X - a.Y*a.Y)
	det := new(big.Rat).Sub(new(big.Rat).Mul(a11, a22), new(big.Rat).Mul(a12, a21))
	ux := new(big.Rat).Sub(new(big.Rat).Mul(b1, a22), new(big.Rat).Mul(a12, b2))
	uy := new(big.Rat).Sub(new(big.Rat).Mul(a11, b2), new(big.Rat).Mul(b1, a21))
	ux.Quo(ux, det)
	uy.Quo(uy, det)
	d2 := func(p P) *big.Rat {
		dx := new(big.Rat).Sub(r(p.X), ux)
		dy := new(big.Rat).Sub(r(p.Y), uy)
		return new(big.Rat).Add(dx.Mul(dx, dx), dy.Mul(dy, dy))
	}
	return d2(a).Cmp(d2(d)) // +1: d strictly inside, 0 on, -1 outside
}

func TestInCircleAgainstRationalCircumcentre(t *testing.T) {
	n := latticeN * latticeN
	cnt := 0
	for i := 0; i < n; i++ {
		for j := 0; j < n; j++ {
			for k := 0; k < n; k++ {
				a, b, c := latticePoint(i), latticePoint(j), latticePoint(k)
				o := sgn(Orient(a, b, c))
				if o == 0 {
					continue
				}
				for l := 0; l < n; l++ {
					d := latticePoint(l)
					if got, want := sgn(InCircle(a, b, c, d))*o, insideRat(a, b, c, d); got != want {
						t.Fatalf("InCircle(%v,%v,%v,%v)·orient = %d, rational = %d", a, b, c, d, got, want)
					}
					cnt++
				}
			}
		}
	}
	t.Log("quadruples:", cnt)
}

// overlap decided independently: the interiors of two triangles intersect iff some point of a fine
// rational sample does... not exact; instead use the exact characterisation by clipping: the
// intersection polygon (Sutherland–Hodgman with rationals) has positive area.
func clipArea(a, b [3]P) *big.Rat {
	type rp struct{ x, y *big.Rat }
	r := func(v int64) *big.Rat { return new(big.Rat).SetInt64(v) }
	poly := []rp{{r(a[0].X), r(a[0].Y)}, {r(a[1].X), r(a[1].Y)}, {r(a[2].X), r(a[2].Y)}}
	s := int64(sgn(Orient(b[0], b[1], b[2])))
	for i := 0; i < 3 && len(poly) > 0; i++ {
		e0, e1 := b[i], b[(i+1)%3]
		side := func(p rp) *big.Rat { // s * cross(e1-e0, p-e0) >= 0 is inside
			dx, dy := r(e1.X-e0.X), r(e1.Y-e0.Y)
			px := new(big.Rat).Sub(p.x, r(e0.X))
			py := new(big.Rat).Sub(p.y, r(e0.Y))
			v := new(big.Rat).Sub(new(big.Rat).Mul(dx, py), new(big.Rat).Mul(dy, px))
			return v.Mul(v, r(s))
		}
		var out []rp
		for j := range poly {
			p, q := poly[j], poly[(j+1)%len(poly)]
			sp, sq := side(p), side(q)
			if sp.Sign() >= 0 {
				out = append(out, p)
			}
			if sp.Sign()*sq.Sign() < 0 {
				// p + t (q-p), t = sp/(sp-sq)
				tt := new(big.Rat).Quo(sp, new(big.Rat).Sub(sp, sq))
				x := new(big.Rat).Add(p.x, new(big.Rat).Mul(tt, new(big.Rat).Sub(q.x, p.x)))
				y := new(big.Rat).Add(p.y, new(big.Rat).Mul(tt, new(big.Rat).Sub(q.y, p.y)))
				out = append(out, rp{x, y})
			}
		}
		poly = out
	}
	area := new(big.Rat)
	for i := range poly {
		j := (i + 1) % len(poly)
		area.Add(area, new(big.Rat).Sub(new(big.Rat).Mul(poly[i].x, poly[j].y), new(big.Rat).Mul(poly[j].x, poly[i].y)))
	}
	return area.Abs(area)
}

func TestInteriorsDisjointAgainstExactClipping(t *testing.T) {
	// every pair of non-degenerate triangles of the 4×4 sub-lattice (both windings via index order)
	var pts []P
	for y := int64(0); y < 4; y++ {
		for x := int64(0); x < 4; x++ {
			pts = append(pts, P{x, y})
		}
	}
	var tris [][3]P
	for i := range pts {
		for j := range pts {
			for k := range pts {
				if i < j && j != k && i < k && Orient(pts[i], pts[j], pts[k]) != 0 {
					tris = append(tris, [3]P{pts[i], pts[j], pts[k]})
				}
			}
		}
	}
	cnt, over := 0, 0
	for i, a := range tris {
		for j := i; j < len(tris); j += 1 + (i+j)%3 { // strided to keep the test fast, still ~10^5 pairs
			b := tris[j]
			want := clipArea(a, b).Sign() == 0
			if got := InteriorsDisjoint(a, b); got != want {
				t.Fatalf("InteriorsDisjoint(%v,%v) = %v, clipping area = %v", a, b, got, clipArea(a, b))
			}
			cnt++
			if !want {
				over++
			}
		}
	}
	t.Log("pairs:", cnt, "overlapping:", over, "triangles:", len(tris))
}

func TestHull2(t *testing.T) {
	if got := hull2([]P{{0, 0}, {4, 0}, {4, 4}, {0, 4}, {2, 2}, {1, 3}}); got != 32 {
		t.Fatal(got)
	}
	if got := hull2([]P{{0, 0}, {2, 1}, {1, 2}}); got != 3 {
		t.Fatal(got)
	}
}

func TestPermutationsAndSubsets(t *testing.T) {
	n := 0
	seen := map[[4]P]bool{}
	forEachPermutation([]P{{0, 0}, {1, 0}, {2, 0}, {3, 0}}, func(p []P) {
		n++
		seen[[4]P{p[0], p[1], p[2], p[3]}] = true
	})
	if n != 24 || len(seen) != 24 {
		t.Fatal(n, len(seen))
	}
	n = 0
	forEachSubset(3, func(p []P) bool { n++; return true })
	if n != 2300 {
		t.Fatal(n)
	}
}
