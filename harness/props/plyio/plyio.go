// Package plyio feeds one PLY byte string to the real reader through every delivery variant of
// plyref.ReaderVariants (and, for a subset, through *os.File and ply.Load) and reports any result
// that is not identical to the *bytes.Reader delivery. Shared by C04 and C08.
package plyio

import (
	"bytes"
	"fmt"
	"io"
	"os"
	"strings"

	"github.com/EliCDavis/polyform/formats/ply"
	"github.com/EliCDavis/polyform/modeling"
	"github.com/EliCDavis/polyform/nodes"

	"verif/harness/core"
	"verif/harness/meshlib"
	"verif/harness/props/plyref"
)

// Result of one load.
type Result struct {
	Mesh  *modeling.Mesh
	Err   string // returned error or reported panic ("" = loaded)
	Crash bool
	Site  string
	snap  *meshlib.Snap
	hash  uint64
}

func (r *Result) Loaded() bool { return r.Err == "" && !r.Crash && r.Mesh != nil }

func (r *Result) Snap() meshlib.Snap {
	if r.snap == nil {
		s := meshlib.Snapshot(*r.Mesh)
		r.snap = &s
		r.hash = s.Hash()
	}
	return *r.snap
}

func guard(f func() (*modeling.Mesh, error)) *Result {
	r := &Result{}
	var err error
	o := core.Guard(func() { r.Mesh, err = f() })
	switch {
	case o.Crash():
		r.Crash = true
		r.Err = o.Msg
		r.Site = strings.TrimPrefix(core.TopFrame(o.Stack), "formats/")
		r.Mesh = nil
	case o.Panicked:
		r.Err = "panic: " + o.Msg
		r.Mesh = nil
	case err != nil:
		r.Err = err.Error()
		r.Mesh = nil
	case r.Mesh == nil:
		r.Err = "nil mesh without error"
	}
	return r
}

// Load reads through ply.ReadMesh.
func Load(in io.Reader) *Result {
	return guard(func() (*modeling.Mesh, error) { return ply.ReadMesh(in) })
}

// Base is the reference delivery.
func Base(data []byte) *Result { return Load(bytes.NewReader(data)) }

// Difference: "" when v is identical to base, else kind and detail.
func difference(base, v *Result) (kind, detail string) {
	switch {
	case v.Crash:
		return "crash", "reader crashed: " + v.Err
	case base.Loaded() && !v.Loaded():
		return "error", "refused with: " + v.Err
	case !base.Loaded() && v.Loaded():
		return "loaded", "loaded although the reference delivery is refused with: " + base.Err
	case !base.Loaded():
		return "", "" // both refuse (error texts may legitimately name the reader)
	}
	bs, vs := base.Snap(), v.Snap()
	if base.hash == v.hash {
		return "", ""
	}
	d := bs.Diff(vs)
	if d == "" {
		d = "snapshots differ"
	}
	return "different-mesh", d
}

// Report is called for every variant whose result differs from the reference delivery.
type Report func(variant, kind, site, detail string)

// Variants runs the in-memory deliveries; with files also *os.File and ply.Load on a temp file
// under /dev/shm (skipped silently where that directory does not exist). It returns the number
// of deliveries executed.
func Variants(data []byte, base *Result, files bool, report Report) int {
	n := 0
	check := func(name string, v *Result) {
		n++
		if kind, detail := difference(base, v); kind != "" {
			site := "ply.MeshReader.Read"
			if v.Crash {
				site = v.Site
			}
			report(name, kind, site, fmt.Sprintf("delivered through %s: %s", name, detail))
		}
	}
	for _, rv := range plyref.ReaderVariants {
		check(rv.Name, Load(rv.New(data)))
	}
	// the node-graph entry point (ply.ReadNode) reads the same bytes; it answers every failure with an
	// empty mesh, so it is compared only where the reference delivery loads
	if base.Loaded() {
		check("ply.ReadNode", guard(func() (*modeling.Mesh, error) {
			m, err := ply.ReadNodeData{In: nodes.Value(append([]byte{}, data...)).Out()}.Process()
			return &m, err
		}))
	}
	if files {
		if path := plyref.TempFile(data); path != "" {
			if f, err := os.Open(path); err == nil {
				check("os.File", Load(f))
				f.Close()
			}
			check("ply.Load(path)", guard(func() (*modeling.Mesh, error) { return ply.Load(path) }))
			os.Remove(path)
		}
	}
	return n
}
