// Package c17: transform types obey their algebra (DESIGN §4 C17).
// Bounded-exhaustive enumeration over lattices / basis families against textbook references.
package c17

import (
	"encoding/json"
	"fmt"
	"math"

	"github.com/EliCDavis/polyform/math/geometry"
	"github.com/EliCDavis/polyform/math/mat"
	"github.com/EliCDavis/polyform/math/quaternion"
	"github.com/EliCDavis/polyform/math/trs"
	"github.com/EliCDavis/polyform/modeling"
	"github.com/EliCDavis/vector/vector3"

	"verif/harness/core"
)

func init() { core.Register(core.Check{ID: "C17", Run: run, Replay: replay}) }

type V3 = vector3.Float64

func v3(x, y, z float64) V3 { return vector3.New(x, y, z) }

type Case struct {
	Kind string    `json:"kind"`
	A    []float64 `json:"a,omitempty"`
	B    []float64 `json:"b,omitempty"`
	C    []float64 `json:"c,omitempty"`
	I    int       `json:"i,omitempty"`
	Cl   string    `json:"class,omitempty"`
}

func finite3(v V3) bool {
	return !(math.IsNaN(v.X()+v.Y()+v.Z()) || math.IsInf(v.X()+v.Y()+v.Z(), 0))
}

func near3(a, b V3, tol float64) bool {
	if !finite3(a) || !finite3(b) {
		return false
	}
	return a.Sub(b).Length() <= tol
}

// ---- references (textbook, written independently of the library) ----

type quat struct{ x, y, z, w float64 }

func hmul(a, b quat) quat { // Hamilton product
	return quat{
		a.w*b.x + a.x*b.w + a.y*b.z - a.z*b.y,
		a.w*b.y - a.x*b.z + a.y*b.w + a.z*b.x,
		a.w*b.z + a.x*b.y - a.y*b.x + a.z*b.w,
		a.w*b.w - a.x*b.x - a.y*b.y - a.z*b.z,
	}
}

// q (0,v) q*  — equals |q|^2 R(q) v for every quaternion, unit or not.
func refRotate(q quat, v V3) V3 {
	r := hmul(hmul(q, quat{v.X(), v.Y(), v.Z(), 0}), quat{-q.x, -q.y, -q.z, q.w})
	return v3(r.x, r.y, r.z)
}

type m16 [16]float64

func arr(m mat.Matrix4x4) m16 {
	return m16{m.X00, m.X01, m.X02, m.X03, m.X10, m.X11, m.X12, m.X13, m.X20, m.X21, m.X22, m.X23, m.X30, m.X31, m.X32, m.X33}
}
func fromArr(a m16) mat.Matrix4x4 {
	return mat.Matrix4x4{a[0], a[1], a[2], a[3], a[4], a[5], a[6], a[7], a[8], a[9], a[10], a[11], a[12], a[13], a[14], a[15]}
}
func refMul(a, b m16) (c m16) {
	for i := 0; i < 4; i++ {
		for j := 0; j < 4; j++ {
			s := 0.
			for k := 0; k < 4; k++ {
				s += a[4*i+k] * b[4*k+j]
			}
			c[4*i+j] = s
		}
	}
	return
}

var perms4 = func() (out [][4]int) {
	var rec func(p []int, used int)
	rec = func(p []int, used int) {
		if len(p) == 4 {
			out = append(out, [4]int{p[0], p[1], p[2], p[3]})
			return
		}
		for i := 0; i < 4; i++ {
			if used&(1<<i) == 0 {
				rec(append(p, i), used|1<<i)
			}
		}
	}
	rec(nil, 0)
	return
}()

func permSign(p [4]int) float64 {
	s := 1.
	for i := 0; i < 4; i++ {
		for j := i + 1; j < 4; j++ {
			if p[i] > p[j] {
				s = -s
			}
		}
	}
	return s
}

// Leibniz formula (exact on small integers).
func refDet(a m16) float64 {
	d := 0.
	for _, p := range perms4 {
		d += permSign(p) * a[p[0]] * a[4+p[1]] * a[8+p[2]] * a[12+p[3]]
	}
	return d
}

func maxAbsDiff(a, b m16) float64 {
	m := 0.
	for i := range a {
		d := math.Abs(a[i] - b[i])
		if math.IsNaN(d) {
			return math.Inf(1)
		}
		if d > m {
			m = d
		}
	}
	return m
}

// ---- enumeration ----

var latVals = []float64{-1, 0, 1}

func lattice(vals []float64) (out []V3) {
	for _, x := range vals {
		for _, y := range vals {
			for _, z := range vals {
				out = append(out, v3(x, y, z))
			}
		}
	}
	return
}

func dirs26() (out []V3) {
	for _, p := range lattice(latVals) {
		if p.LengthSquared() > 0 {
			out = append(out, p)
		}
	}
	return
}

func quatGrid(c *core.Ctx) (out []quat) {
	vals := []float64{-1, 0, 1}
	if c.Thorough() {
		vals = []float64{-1, -0.5, 0, 1, 2}
	}
	for _, x := range vals {
		for _, y := range vals {
			for _, z := range vals {
				for _, w := range vals {
					out = append(out, quat{x, y, z, w})
				}
			}
		}
	}
	return
}

func lq(q quat) quaternion.Quaternion { return quaternion.New(v3(q.x, q.y, q.z), q.w) }

type checker struct{ c *core.Ctx }

func (k checker) fail(site, clause, class, detail string, cs Case) {
	k.c.Violate(core.Violation{Site: site, Clause: clause, Class: class, Detail: detail, Case: cs})
}

func run(c *core.Ctx) {
	k := checker{c}
	idx := 0
	mine := func() bool { idx++; return c.Mine(idx) }

	// --- quaternion Rotate == q v q* on the tensor grid (degree-2 polynomial in q, linear in v) ---
	qs := quatGrid(c)
	vs := lattice([]float64{0, 1})
	if c.Thorough() {
		vs = lattice([]float64{-2, 0, 1})
	}
	c.Bound("quaternion_grid", len(qs))
	for _, q := range qs {
		if !mine() {
			continue
		}
		for _, v := range vs {
			k.rotate(q, v)
		}
	}
	// --- composition law on the same grid (pairs) ---
	step := 1
	for i := 0; i < len(qs); i += step {
		if !mine() {
			continue
		}
		for j := 0; j < len(qs); j++ {
			for _, v := range vs[1:4] {
				k.compose(qs[i], qs[j], v)
			}
		}
	}
	// --- unit quaternions preserve length: FromTheta over axes × angles ---
	angles := []float64{0, math.Pi / 6, math.Pi / 2, 2, math.Pi, -1, 4, 2 * math.Pi}
	for _, ax := range dirs26() {
		if !mine() {
			continue
		}
		for _, th := range angles {
			for _, v := range lattice([]float64{-2, 0, 1, 3}) {
				k.fromTheta(ax, th, v)
			}
		}
	}
	// --- RotationTo over all ordered lattice direction pairs + nearly (anti)parallel ladder ---
	ds := dirs26()
	for _, a := range ds {
		if !mine() {
			continue
		}
		for _, b := range ds {
			k.rotationTo(a.Normalized(), b.Normalized(), "lattice")
		}
	}
	for _, a := range ds {
		if !mine() {
			continue
		}
		an := a.Normalized()
		// a perpendicular direction
		p := an.Cross(v3(0.3, -0.7, 0.64)).Normalized()
		for _, e := range []float64{1e-2, 1e-3, 2e-3, 1e-4, 1e-6, 1e-8} {
			b := an.Add(p.Scale(e)).Normalized()
			k.rotationTo(an, b, "near-parallel")
			k.rotationTo(an, b.Scale(-1), "near-antiparallel")
		}
	}
	// --- matrices: basis pairs decide the (bi)linear forms ---
	if mine() {
		for i := 0; i < 16; i++ {
			for j := 0; j < 16; j++ {
				k.matBasis(i, j)
			}
		}
	}
	// dense generic pairs (entries distinct so any swapped subscript is visible)
	for s := 0; s < 8; s++ {
		if !mine() {
			continue
		}
		var a, b m16
		for i := range a {
			a[i] = float64((i*7+s*3)%11) - 4 + 0.5*float64(s%2)
			b[i] = float64((i*5+s*2)%13) - 6 + 0.25*float64(i%3)
		}
		k.matPair(a, b, "dense")
	}
	// --- determinant / inverse family: signed-scaled permutation matrices + one or two extra entries ---
	scales := []float64{-1, 1, 2}
	extras := []float64{-1, 1, 2}
	for pi, p := range perms4 {
		for s := 0; s < 81; s++ {
			if !mine() {
				continue
			}
			var base m16
			t := s
			for r := 0; r < 4; r++ {
				base[4*r+p[r]] = scales[t%3]
				t /= 3
			}
			k.matInv(base, Case{Kind: "inv", I: pi*81 + s})
			for e := 0; e < 16; e++ {
				if base[e] != 0 {
					continue
				}
				for _, x := range extras {
					a := base
					a[e] = x
					k.matInv(a, Case{Kind: "inv1", A: a[:]})
					if c.Thorough() {
						for e2 := e + 1; e2 < 16; e2++ {
							if a[e2] != 0 {
								continue
							}
							a2 := a
							a2[e2] = 2
							k.matInv(a2, Case{Kind: "inv2", A: a2[:]})
						}
					}
				}
			}
		}
	}
	// det(AB) = det A det B, I·A = A·I = A on a family of sparse integer matrices
	var fam []m16
	for pi, p := range perms4 {
		var a m16
		for r := 0; r < 4; r++ {
			a[4*r+p[r]] = scales[(pi+r)%3]
		}
		a[(pi*5+3)%16] += 1
		a[(pi*3+7)%16] -= 2
		fam = append(fam, a)
	}
	for i, a := range fam {
		if !mine() {
			continue
		}
		for _, b := range fam {
			k.detProduct(a, b)
		}
		k.identityLaws(a, i)
	}
	// --- TRS ---
	rots := []quaternion.Quaternion{
		quaternion.Identity(),
		quaternion.FromTheta(math.Pi/2, v3(0, 1, 0)),
		quaternion.FromTheta(math.Pi/2, v3(1, 0, 0)),
		quaternion.FromTheta(math.Pi, v3(0, 0, 1)),
		quaternion.FromTheta(1.1, v3(1, 2, -3)),
		quaternion.FromTheta(-2.3, v3(-1, 0.5, 0.25)),
	}
	tls := []V3{v3(0, 0, 0), v3(1, 2, 3), v3(-4, 0.5, 8)}
	scs := []V3{v3(1, 1, 1), v3(2, 0.5, -1), v3(3, 3, 3), v3(0.25, 4, 2)}
	pts := lattice([]float64{-1, 0, 2})
	for ri, r := range rots {
		for ti, t := range tls {
			for si, s := range scs {
				if !mine() {
					continue
				}
				k.trs(r, t, s, pts, Case{Kind: "trs", I: ri*100 + ti*10 + si})
			}
		}
	}
	// --- mesh-level transforms move positions like the point maps ---
	for mi, m := range smallMeshes() {
		for ri, r := range rots {
			for ti, t := range tls {
				for si, s := range scs {
					if !mine() {
						continue
					}
					k.mesh(m, r, t, s, Case{Kind: "mesh", I: mi*1000 + ri*100 + ti*10 + si})
				}
			}
		}
	}
	// --- AABB on a dyadic lattice (exact arithmetic) ---
	centers := lattice([]float64{-1, 0, 0.5})
	sizes := []V3{v3(0, 0, 0), v3(1, 1, 1), v3(2, 0.5, 4), v3(0, 3, 1)}
	qpts := lattice([]float64{-3, -0.75, 0, 0.5, 2.25})
	for ci, ce := range centers {
		for si, sz := range sizes {
			if !mine() {
				continue
			}
			k.aabb(ce, sz, qpts, centers, sizes, Case{Kind: "aabb", I: ci*10 + si})
		}
	}
	// large-magnitude boxes (tolerance proportional to magnitude)
	for i, scale := range []float64{1e6, 1e-6, 3e9, 0x1p-40, 0x1p40, 1e-12, 1e12, 1e-3} {
		if !mine() {
			continue
		}
		k.aabbScaled(scale, Case{Kind: "aabb-scaled", I: i})
	}
	// --- magnitude and size ladders (ladders.go) ---
	k.runLadders(mine)
}

func (k checker) rotate(q quat, v V3) {
	got := lq(q).Rotate(v)
	want := refRotate(q, v)
	scale := 1 + (q.x*q.x+q.y*q.y+q.z*q.z+q.w*q.w)*v.Length()
	out := "ok"
	if !near3(got, want, 1e-12*scale) {
		out = "mismatch"
		k.fail("quaternion.Quaternion.Rotate", "rotate equals q·v·q* (the rotation matrix image scaled by |q|²)", "tensor-grid",
			fmt.Sprintf("q=%v v=%v got=%v want=%v", q, v, got, want), Case{Kind: "rotate", A: []float64{q.x, q.y, q.z, q.w}, B: s3(v)})
	}
	k.c.Eval("quaternion.rotate", out)
	if q != (quat{}) && v.LengthSquared() > 0 {
		k.c.Nontrivial("rot", q.x, q.y, q.z, q.w, v.X(), v.Y(), v.Z())
	}
	k.c.Sample("quaternion.rotate", map[string]any{"q": q4(q), "v": v.ToFixedArr(), "got": got.ToFixedArr()})
}

func q4(q quat) [4]float64 { return [4]float64{q.x, q.y, q.z, q.w} }

func (k checker) compose(a, b quat, v V3) {
	prod := lq(a).Multiply(lq(b))
	got := prod.Rotate(v)
	want := lq(a).Rotate(lq(b).Rotate(v))
	na := a.x*a.x + a.y*a.y + a.z*a.z + a.w*a.w
	nb := b.x*b.x + b.y*b.y + b.z*b.z + b.w*b.w
	out := "ok"
	if !near3(got, want, 1e-12*(1+na*nb*v.Length())) {
		out = "mismatch"
		k.fail("quaternion.Quaternion.Multiply", "(q1*q2) rotates like q2 followed by q1", "tensor-grid",
			fmt.Sprintf("q1=%v q2=%v v=%v got=%v want=%v", a, b, v, got, want), Case{Kind: "compose", A: q4S(a), B: q4S(b), C: s3(v)})
	}
	// also against the independent Hamilton product
	h := hmul(a, b)
	pa := prod.ToArr()
	if math.Abs(pa[0]-h.x)+math.Abs(pa[1]-h.y)+math.Abs(pa[2]-h.z)+math.Abs(pa[3]-h.w) > 1e-12*(1+na*nb) {
		out = "mismatch"
		k.fail("quaternion.Quaternion.Multiply", "product equals the Hamilton product", "tensor-grid",
			fmt.Sprintf("q1=%v q2=%v got=%v want=%v", a, b, pa, h), Case{Kind: "compose", A: q4S(a), B: q4S(b), C: s3(v)})
	}
	k.c.Eval("quaternion.compose", out)
	if na > 0 && nb > 0 {
		k.c.Nontrivial("cmp", a.x, a.y, a.z, a.w, b.x, b.y, b.z, b.w, v.X(), v.Y(), v.Z())
	}
}

func q4S(q quat) []float64 { return []float64{q.x, q.y, q.z, q.w} }

func (k checker) fromTheta(ax V3, th float64, v V3) {
	q := quaternion.FromTheta(th, ax)
	got := q.Rotate(v)
	out := "ok"
	cs := Case{Kind: "fromTheta", A: s3(ax), B: []float64{th}, C: s3(v)}
	if !finite3(got) || math.Abs(got.Length()-v.Length()) > 1e-12*(1+v.Length()) {
		out = "mismatch"
		k.fail("quaternion.FromTheta/Rotate", "a unit quaternion preserves length", "axis-angle-grid",
			fmt.Sprintf("axis=%v theta=%v v=%v got=%v", ax, th, v, got), cs)
	}
	// Rodrigues reference
	n := ax.Normalized()
	want := v.Scale(math.Cos(th)).Add(n.Cross(v).Scale(math.Sin(th))).Add(n.Scale(n.Dot(v) * (1 - math.Cos(th))))
	if !near3(got, want, 1e-12*(1+v.Length())) {
		out = "mismatch"
		k.fail("quaternion.FromTheta/Rotate", "rotation about axis by angle equals Rodrigues' formula", "axis-angle-grid",
			fmt.Sprintf("axis=%v theta=%v v=%v got=%v want=%v", ax, th, v, got, want), cs)
	}
	k.c.Eval("quaternion.fromTheta", out)
	if v.LengthSquared() > 0 && th != 0 {
		k.c.Nontrivial("ft", ax.X(), ax.Y(), ax.Z(), th, v.X(), v.Y(), v.Z())
	}
}

func (k checker) rotationTo(a, b V3, class string) {
	q := quaternion.RotationTo(a, b)
	got := q.Rotate(a)
	dot := a.Dot(b)
	tol := 1e-6
	if dot > 0.999999-1e-9 || dot < -0.999999+1e-9 {
		// the implementation snaps directions closer than acos(0.999999)=1.41e-3 rad; the statement's
		// "maps the first onto the second" is judged at that resolution inside the band
		tol = 3e-3
	}
	out := "ok"
	if !near3(got, b, tol) {
		out = "mismatch"
		cl := class
		if !finite3(got) {
			cl += "/non-finite"
		}
		k.fail("quaternion.RotationTo", "RotationTo(a,b) maps a onto b", cl,
			fmt.Sprintf("a=%v b=%v got=%v", a, b, got), Case{Kind: "rotationTo", A: s3(a), B: s3(b), Cl: class})
	}
	k.c.Eval("quaternion.rotationTo/"+class, out)
	k.c.Nontrivial("rt", a.X(), a.Y(), a.Z(), b.X(), b.Y(), b.Z())
	k.c.Sample("quaternion.rotationTo/"+class, map[string]any{"a": a.ToFixedArr(), "b": b.ToFixedArr(), "rotated": got.ToFixedArr()})
}

func basis(i int) (a m16) { a[i] = 1; return }

func (k checker) matBasis(i, j int) {
	k.matPair(basis(i), basis(j), "basis")
	// MulPosition: linear in the matrix, affine in the point
	A := fromArr(basis(i))
	for _, p := range []V3{v3(0, 0, 0), v3(1, 0, 0), v3(0, 1, 0), v3(0, 0, 1), v3(2, 3, 5)} {
		got := A.MulPosition(p)
		h := [4]float64{p.X(), p.Y(), p.Z(), 1}
		var w [3]float64
		for r := 0; r < 3; r++ {
			for cidx := 0; cidx < 4; cidx++ {
				w[r] += basis(i)[4*r+cidx] * h[cidx]
			}
		}
		out := "ok"
		if got != v3(w[0], w[1], w[2]) {
			out = "mismatch"
			k.fail("mat.Matrix4x4.MulPosition", "MulPosition is row-by-column on (p,1)", "basis",
				fmt.Sprintf("basis=%d p=%v got=%v want=%v", i, p, got, w), Case{Kind: "mulpos", I: i, A: s3(p)})
		}
		k.c.Eval("matrix.mulposition", out)
	}
}

func (k checker) matPair(a, b m16, class string) {
	A, B := fromArr(a), fromArr(b)
	var wantSum m16
	for i := range a {
		wantSum[i] = a[i] + b[i]
	}
	out := "ok"
	cs := Case{Kind: "matpair", A: a[:], B: b[:], Cl: class}
	if d := maxAbsDiff(arr(A.Add(B)), wantSum); d > 0 {
		out = "mismatch"
		k.fail("mat.Matrix4x4.Add", "matrix addition is entry-wise", class, fmt.Sprintf("a=%v b=%v got=%v want=%v", a, b, arr(A.Add(B)), wantSum), cs)
	}
	k.c.Eval("matrix.add/"+class, out)
	out = "ok"
	if d := maxAbsDiff(arr(A.Multiply(B)), refMul(a, b)); d > 1e-9 {
		out = "mismatch"
		k.fail("mat.Matrix4x4.Multiply", "matrix multiplication is row-by-column", class, fmt.Sprintf("a=%v b=%v got=%v want=%v", a, b, arr(A.Multiply(B)), refMul(a, b)), cs)
	}
	k.c.Eval("matrix.multiply/"+class, out)
	k.c.Nontrivial("mp", fmt.Sprint(a, b))
	k.c.Sample("matrix.pair/"+class, map[string]any{"a": a, "b": b})
}

func (k checker) matInv(a m16, cs Case) {
	if cs.A == nil {
		cs.A = a[:]
	}
	A := fromArr(a)
	want := refDet(a)
	got := A.Determinant()
	out := "ok"
	if math.Abs(got-want) > 1e-9*(1+math.Abs(want)) {
		out = "mismatch"
		k.fail("mat.Matrix4x4.Determinant", "determinant equals the Leibniz sum", "sparse-integer", fmt.Sprintf("a=%v got=%v want=%v", a, got, want), cs)
	}
	k.c.Eval("matrix.determinant", out)
	if want == 0 {
		return
	}
	inv := arr(A.Inverse())
	id := arr(mat.Identity())
	out = "ok"
	if maxAbsDiff(refMul(a, inv), id) > 1e-9 || maxAbsDiff(refMul(inv, a), id) > 1e-9 {
		out = "mismatch"
		k.fail("mat.Matrix4x4.Inverse", "A·A⁻¹ = A⁻¹·A = I", "sparse-integer", fmt.Sprintf("a=%v inv=%v", a, inv), cs)
	}
	k.c.Eval("matrix.inverse", out)
	k.c.Nontrivial("inv", fmt.Sprint(a))
	k.c.Sample("matrix.inverse", map[string]any{"a": a, "det": want})
}

func (k checker) detProduct(a, b m16) {
	A, B := fromArr(a), fromArr(b)
	got := A.Multiply(B).Determinant()
	want := refDet(a) * refDet(b)
	out := "ok"
	if math.Abs(got-want) > 1e-9*(1+math.Abs(want)) {
		out = "mismatch"
		k.fail("mat.Matrix4x4.Multiply/Determinant", "det(AB) = det A · det B", "sparse-integer", fmt.Sprintf("a=%v b=%v got=%v want=%v", a, b, got, want), Case{Kind: "detprod", A: a[:], B: b[:]})
	}
	k.c.Eval("matrix.detproduct", out)
	k.c.Nontrivial("dp", fmt.Sprint(a, b))
}

func (k checker) identityLaws(a m16, i int) {
	A := fromArr(a)
	I := mat.Identity()
	out := "ok"
	if arr(I.Multiply(A)) != a || arr(A.Multiply(I)) != a {
		out = "mismatch"
		k.fail("mat.Identity/Multiply", "I·A = A·I = A", "sparse-integer", fmt.Sprintf("a=%v", a), Case{Kind: "identity", A: a[:]})
	}
	var z m16
	if arr(A.Add(fromArr(z))) != a {
		out = "mismatch"
		k.fail("mat.Matrix4x4.Add", "A + 0 = A", "sparse-integer", fmt.Sprintf("a=%v got=%v", a, arr(A.Add(fromArr(z)))), Case{Kind: "identity", A: a[:]})
	}
	k.c.Eval("matrix.identity", out)
}

func (k checker) trs(r quaternion.Quaternion, t, s V3, pts []V3, cs Case) {
	T := trs.New(t, r, s)
	ra := r.ToArr()
	rq := quat{ra[0], ra[1], ra[2], ra[3]}
	out := "ok"
	want := make([]V3, len(pts))
	for i, p := range pts {
		want[i] = refRotate(rq, v3(p.X()*s.X(), p.Y()*s.Y(), p.Z()*s.Z())).Add(t)
		if got := T.Transform(p); !near3(got, want[i], 1e-9*(1+want[i].Length())) {
			out = "mismatch"
			k.fail("trs.TRS.Transform", "TRS applies scale, then rotation, then translation", "grid",
				fmt.Sprintf("t=%v r=%v s=%v p=%v got=%v want=%v", t, ra, s, p, got, want[i]), cs)
			break
		}
	}
	arrOut := T.TransformArray(pts)
	inPlace := append([]V3{}, pts...)
	T.TransformInPlace(inPlace)
	for i := range pts {
		if !near3(arrOut[i], want[i], 1e-9*(1+want[i].Length())) || !near3(inPlace[i], want[i], 1e-9*(1+want[i].Length())) {
			out = "mismatch"
			k.fail("trs.TRS.TransformArray/InPlace", "array forms equal the point map", "grid", fmt.Sprintf("i=%d", i), cs)
			break
		}
	}
	if T.Position() != t || T.Scale() != s || T.Rotation() != r {
		out = "mismatch"
		k.fail("trs.New", "accessors return the constructor's triple", "grid", "", cs)
	}
	d := v3(0.5, -2, 7)
	T2 := T.Translate(d)
	for i, p := range pts {
		if !near3(T2.Transform(p), want[i].Add(d), 1e-9*(1+want[i].Length())) {
			out = "mismatch"
			k.fail("trs.TRS.Translate", "Translate adds to the translation only", "grid", fmt.Sprintf("p=%v", p), cs)
			break
		}
	}
	// constructors
	for _, p := range pts {
		if !near3(trs.Position(t).Transform(p), p.Add(t), 1e-12*(1+p.Length()+t.Length())) {
			out = "mismatch"
			k.fail("trs.Position", "Position(t) translates by t", "grid", fmt.Sprintf("t=%v p=%v got=%v", t, p, trs.Position(t).Transform(p)), cs)
			break
		}
		if !near3(trs.Scale(s).Transform(p), v3(p.X()*s.X(), p.Y()*s.Y(), p.Z()*s.Z()), 1e-12*(1+p.Length()*s.Length())) {
			out = "mismatch"
			k.fail("trs.Scale", "Scale(s) scales component-wise", "grid", fmt.Sprintf("s=%v p=%v got=%v", s, p, trs.Scale(s).Transform(p)), cs)
			break
		}
		if !near3(trs.Rotation(r).Transform(p), refRotate(rq, p), 1e-12*(1+p.Length())) {
			out = "mismatch"
			k.fail("trs.Rotation", "Rotation(q) rotates by q", "grid", fmt.Sprintf("p=%v", p), cs)
			break
		}
	}
	k.c.Eval("trs", out)
	k.c.Nontrivial("trs", fmt.Sprint(t, ra, s))
	k.c.Sample("trs", map[string]any{"t": t.ToFixedArr(), "r": ra, "s": s.ToFixedArr()})
}

func smallMeshes() []modeling.Mesh {
	P := []V3{v3(0, 0, 0), v3(1, 0, 0.5), v3(0, 2, -1), v3(-3, 1, 4)}
	N := []V3{v3(0, 0, 1), v3(0, 1, 0), v3(1, 0, 0), v3(0, 0, -1)}
	mk := func(idx []int, n int, topo modeling.Topology) modeling.Mesh {
		return modeling.NewMesh(topo, idx).
			SetFloat3Attribute(modeling.PositionAttribute, append([]V3{}, P[:n]...)).
			SetFloat3Attribute(modeling.NormalAttribute, append([]V3{}, N[:n]...))
	}
	return []modeling.Mesh{
		mk([]int{0, 1, 2}, 3, modeling.TriangleTopology),
		mk([]int{2, 1, 0, 0, 0, 1}, 3, modeling.TriangleTopology),
		mk([]int{0, 1, 2, 2, 1, 3}, 4, modeling.TriangleTopology),
		mk([]int{0, 1, 2, 3}, 4, modeling.PointTopology),
		mk([]int{3, 3, 0}, 4, modeling.PointTopology),
		mk([]int{}, 3, modeling.TriangleTopology),
	}
}

func meshPositions(m modeling.Mesh) []V3 {
	a := m.Float3Attribute(modeling.PositionAttribute)
	out := make([]V3, a.Len())
	for i := range out {
		out[i] = a.At(i)
	}
	return out
}

func (k checker) mesh(m modeling.Mesh, r quaternion.Quaternion, t, s V3, cs Case) {
	before := meshPositions(m)
	ra := r.ToArr()
	rq := quat{ra[0], ra[1], ra[2], ra[3]}
	type op struct {
		name string
		got  modeling.Mesh
		f    func(V3) V3
	}
	ops := []op{
		{"Mesh.Rotate", m.Rotate(r), func(p V3) V3 { return refRotate(rq, p) }},
		{"Mesh.Translate", m.Translate(t), func(p V3) V3 { return p.Add(t) }},
		{"Mesh.Scale", m.Scale(s), func(p V3) V3 { return v3(p.X()*s.X(), p.Y()*s.Y(), p.Z()*s.Z()) }},
		{"Mesh.ApplyTRS", m.ApplyTRS(trs.New(t, r, s)), func(p V3) V3 {
			return refRotate(rq, v3(p.X()*s.X(), p.Y()*s.Y(), p.Z()*s.Z())).Add(t)
		}},
	}
	out := "ok"
	for _, o := range ops {
		got := meshPositions(o.got)
		if len(got) != len(before) {
			out = "mismatch"
			k.fail("modeling."+o.name, "mesh-level transform moves positions like the point map", "small-mesh", "vertex count changed", cs)
			continue
		}
		for i := range got {
			w := o.f(before[i])
			if !near3(got[i], w, 1e-9*(1+w.Length())) {
				out = "mismatch"
				k.fail("modeling."+o.name, "mesh-level transform moves positions like the point map", "small-mesh",
					fmt.Sprintf("vertex %d got=%v want=%v", i, got[i], w), cs)
				break
			}
		}
		if o.got.Indices().Len() != m.Indices().Len() {
			out = "mismatch"
			k.fail("modeling."+o.name, "mesh-level transform keeps the indices", "small-mesh", "", cs)
		}
	}
	k.c.Eval("mesh.transforms", out)
	k.c.Nontrivial("mesh", cs.I)
}

func (k checker) aabb(ce, sz V3, qpts, centers, sizes []V3, cs Case) {
	box := geometry.NewAABB(ce, sz)
	lo, hi := ce.Sub(sz.Scale(0.5)), ce.Add(sz.Scale(0.5))
	inRef := func(p V3) bool {
		return p.X() >= lo.X() && p.X() <= hi.X() && p.Y() >= lo.Y() && p.Y() <= hi.Y() && p.Z() >= lo.Z() && p.Z() <= hi.Z()
	}
	out := "ok"
	for _, p := range qpts {
		if box.Contains(p) != inRef(p) {
			out = "mismatch"
			k.fail("geometry.AABB.Contains", "Contains is the closed-box membership test", "dyadic-lattice", fmt.Sprintf("box=%v/%v p=%v", ce, sz, p), cs)
		}
		cp := box.ClosestPoint(p)
		cl := func(x, a, b float64) float64 { return math.Max(a, math.Min(b, x)) }
		want := v3(cl(p.X(), lo.X(), hi.X()), cl(p.Y(), lo.Y(), hi.Y()), cl(p.Z(), lo.Z(), hi.Z()))
		if !inRef(cp) || cp != want {
			out = "mismatch"
			k.fail("geometry.AABB.ClosestPoint", "closest point lies in the box and is the per-axis clamp", "dyadic-lattice", fmt.Sprintf("box=%v/%v p=%v got=%v want=%v", ce, sz, p, cp, want), cs)
		}
		g := box
		g.EncapsulatePoint(p)
		if !g.Contains(p) || !g.Contains(lo) || !g.Contains(hi) {
			out = "mismatch"
			k.fail("geometry.AABB.EncapsulatePoint", "a box grown to encapsulate a point contains it and the old box", "dyadic-lattice", fmt.Sprintf("box=%v/%v p=%v grown=%v..%v", ce, sz, p, g.Min(), g.Max()), cs)
		}
		// minimality: the grown box is the hull
		wmin := v3(math.Min(lo.X(), p.X()), math.Min(lo.Y(), p.Y()), math.Min(lo.Z(), p.Z()))
		wmax := v3(math.Max(hi.X(), p.X()), math.Max(hi.Y(), p.Y()), math.Max(hi.Z(), p.Z()))
		if g.Min() != wmin || g.Max() != wmax {
			out = "mismatch"
			k.fail("geometry.AABB.EncapsulatePoint", "the grown box is the hull of box and point", "dyadic-lattice", fmt.Sprintf("box=%v/%v p=%v grown=%v..%v", ce, sz, p, g.Min(), g.Max()), cs)
		}
		k.c.Eval("aabb.point", out)
	}
	for _, c2 := range centers[:9] {
		for _, s2 := range sizes {
			other := geometry.NewAABB(c2, s2)
			g := box
			g.EncapsulateBounds(other)
			olo, ohi := c2.Sub(s2.Scale(0.5)), c2.Add(s2.Scale(0.5))
			ok := true
			for m := 0; m < 8; m++ {
				pick := func(bit int, a, b float64) float64 {
					if m&bit != 0 {
						return a
					}
					return b
				}
				if !g.Contains(v3(pick(1, olo.X(), ohi.X()), pick(2, olo.Y(), ohi.Y()), pick(4, olo.Z(), ohi.Z()))) ||
					!g.Contains(v3(pick(1, lo.X(), hi.X()), pick(2, lo.Y(), hi.Y()), pick(4, lo.Z(), hi.Z()))) {
					ok = false
				}
			}
			o2 := "ok"
			if !ok {
				o2 = "mismatch"
				k.fail("geometry.AABB.EncapsulateBounds", "a box grown to encapsulate a box contains both", "dyadic-lattice", fmt.Sprintf("box=%v/%v other=%v/%v grown=%v..%v", ce, sz, c2, s2, g.Min(), g.Max()), cs)
			}
			k.c.Eval("aabb.bounds", o2)
		}
	}
	// from points
	fp := geometry.NewAABBFromPoints(qpts[:7]...)
	for _, p := range qpts[:7] {
		if !fp.Contains(p) {
			k.fail("geometry.NewAABBFromPoints", "the box of a point set contains every point", "dyadic-lattice", fmt.Sprintf("p=%v", p), cs)
		}
	}
	k.c.Nontrivial("aabb", cs.I)
	k.c.Sample("aabb", map[string]any{"center": ce.ToFixedArr(), "size": sz.ToFixedArr()})
}

func (k checker) aabbScaled(scale float64, cs Case) {
	pts := []V3{v3(0.1, 0.7, -0.3).Scale(scale), v3(-1.3, 0.2, 0.9).Scale(scale), v3(0.33, -0.77, 0.51).Scale(scale), v3(1.0/3, 2.0/7, -5.0/9).Scale(scale)}
	box := geometry.NewAABB(pts[0], v3(0.2, 0.3, 0.7).Scale(scale))
	tol := 1e-12 * scale * 4
	out := "ok"
	for _, p := range pts[1:] {
		box.EncapsulatePoint(p)
		e := box
		e.Expand(tol)
		if !e.Contains(p) {
			out = "mismatch"
			k.fail("geometry.AABB.EncapsulatePoint", "a box grown to encapsulate a point contains it (tolerance ∝ magnitude)", "scaled", fmt.Sprintf("scale=%v p=%v box=%v..%v", scale, p, box.Min(), box.Max()), cs)
		}
		cp := box.ClosestPoint(p.Scale(3))
		if !e.Contains(cp) {
			out = "mismatch"
			k.fail("geometry.AABB.ClosestPoint", "closest point lies in the box (tolerance ∝ magnitude)", "scaled", fmt.Sprintf("scale=%v", scale), cs)
		}
	}
	k.c.Eval("aabb.scaled", out)
	k.c.Nontrivial("aabbs", scale)
}

// replay re-executes one recorded case.
func replay(c *core.Ctx) {
	var cs Case
	if err := json.Unmarshal(c.Replay, &cs); err != nil {
		c.HarnessError("bad case: %v", err)
		return
	}
	k := checker{c}
	a3 := func(a []float64) V3 { return v3(a[0], a[1], a[2]) }
	a16 := func(a []float64) (m m16) { copy(m[:], a); return }
	switch cs.Kind {
	case "rotate":
		k.rotate(quat{cs.A[0], cs.A[1], cs.A[2], cs.A[3]}, a3(cs.B))
	case "compose":
		k.compose(quat{cs.A[0], cs.A[1], cs.A[2], cs.A[3]}, quat{cs.B[0], cs.B[1], cs.B[2], cs.B[3]}, a3(cs.C))
	case "fromTheta":
		k.fromTheta(a3(cs.A), cs.B[0], a3(cs.C))
	case "rotationTo":
		k.rotationTo(a3(cs.A), a3(cs.B), cs.Cl)
	case "matpair":
		k.matPair(a16(cs.A), a16(cs.B), cs.Cl)
	case "mulpos":
		k.matBasis(cs.I, 0)
	case "inv", "inv1", "inv2":
		k.matInv(a16(cs.A), cs)
	case "detprod":
		k.detProduct(a16(cs.A), a16(cs.B))
	case "identity":
		k.identityLaws(a16(cs.A), 0)
	case "inv-scaled":
		k.matInvScaled(a16(cs.A), cs.B[0], cs.Cl)
	case "maps-scaled":
		k.pointMapsScaled(ladderRots()[cs.I], a3(cs.A), a3(cs.B), cs.C[0], cs.I)
	case "size":
		k.sizeCase(cs.I)
	default:
		// index-addressed families: re-run the whole (cheap) enumeration and keep only matching cases
		sub := core.NewCtx(c.Property, c.Tier, 0, 1, 0, 0)
		run(sub)
		for _, g := range sub.R.Violations {
			for _, v := range g.First {
				if vc, ok := v.Case.(Case); ok && vc.Kind == cs.Kind && vc.I == cs.I {
					c.Violate(v)
				}
			}
		}
	}
}

func s3(v V3) []float64 { return []float64{v.X(), v.Y(), v.Z()} }
