package c17

// Two further dimensions of "for all finite vectors … invertible matrices, TRS triples and boxes
// (floating-point tolerance proportional to magnitude)" that the unit-sized grids do not reach:
//
//   magnitude ladder — every law re-checked with its operands scaled by σ from 2^-60 … 2^60 (dyadic
//     scales keep the arithmetic exact, so the expected value is the scaled expected value) and by
//     decimal scales 1e-6 … 1e6, with tolerances relative to the operands' magnitude (never "1 +");
//     an absolute threshold (singularity test, epsilon compare, clamp) is visible only here;
//   size ladder — the array and mesh forms of the point maps on n = 2^k−1, 2^k, 2^k+1 and one count in
//     between, k = 2..15 (thorough 2..17), every element compared with the point map; a chunking or
//     worker-pool threshold a change introduces lies far above the small meshes.

import (
	"fmt"
	"math"

	"github.com/EliCDavis/polyform/math/mat"
	"github.com/EliCDavis/polyform/math/quaternion"
	"github.com/EliCDavis/polyform/math/trs"
	"github.com/EliCDavis/polyform/modeling"
)

func sigmas() []float64 {
	out := []float64{}
	for _, e := range []int{-60, -40, -30, -20, -13, -10, -7, -3, 3, 10, 20, 40, 60} {
		out = append(out, math.Ldexp(1, e))
	}
	return append(out, 1e-6, 1e-4, 1e-3, 2e-3, 1e-2, 1e2, 1e3, 1e6)
}

func relNear3(a, b V3, tol, mag float64) bool {
	return finite3(a) && finite3(b) && a.Sub(b).Length() <= tol*mag
}

// matInvScaled: the matrix a with (mode "all") every entry, or (mode "affine") the upper-left 3×3
// block scaled by sigma.  det scales by σ^4 resp. σ^3; the inverse laws are checked on the products,
// whose entries are O(1) whatever σ.
func (k checker) matInvScaled(a m16, sigma float64, mode string) {
	s := a
	for i := range s {
		r, c := i/4, i%4
		if mode == "all" || (r < 3 && c < 3) {
			s[i] *= sigma
		}
	}
	cs := Case{Kind: "inv-scaled", A: a[:], B: []float64{sigma}, Cl: mode}
	class := "scaled-" + mode + "/" + sigmaClass(sigma)
	want := refDet(s)
	if want == 0 || math.IsInf(want, 0) {
		return
	}
	A := fromArr(s)
	out := "ok"
	if got := A.Determinant(); !(math.Abs(got-want) <= 1e-9*math.Abs(want)) {
		out = "mismatch"
		k.fail("mat.Matrix4x4.Determinant", "determinant equals the Leibniz sum (tolerance proportional to magnitude)", class, fmt.Sprintf("a=%v got=%v want=%v", s, got, want), cs)
	}
	k.c.Eval("matrix.determinant.scaled", out)
	inv := arr(A.Inverse())
	id := arr(mat.Identity())
	// tolerance: products of an entry of A with an entry of A⁻¹ are bounded by ‖A‖·‖A⁻¹‖ entry-wise
	na, ni := 0., 0.
	for i := range s {
		na, ni = math.Max(na, math.Abs(s[i])), math.Max(ni, math.Abs(inv[i]))
	}
	tol := 1e-9 * math.Max(1, na*ni)
	out = "ok"
	if d1, d2 := maxAbsDiff(refMul(s, inv), id), maxAbsDiff(refMul(inv, s), id); !(d1 <= tol) || !(d2 <= tol) {
		out = "mismatch"
		k.fail("mat.Matrix4x4.Inverse", "A·A⁻¹ = A⁻¹·A = I for every invertible matrix, whatever its magnitude", class, fmt.Sprintf("a=%v det=%v inv=%v", s, want, inv), cs)
	}
	k.c.Eval("matrix.inverse.scaled", out)
	k.c.Nontrivial("inv-scaled", fmt.Sprint(a), sigma, mode)
}

func sigmaClass(s float64) string {
	switch {
	case s < 1e-9:
		return "sigma<1e-9"
	case s < 1e-2:
		return "sigma<1e-2"
	case s < 1:
		return "sigma<1"
	case s <= 1e3:
		return "sigma<=1e3"
	default:
		return "sigma>1e3"
	}
}

// pointMapsScaled: quaternion rotation, TRS and the mesh-level transforms on operands of magnitude σ.
func (k checker) pointMapsScaled(r quaternion.Quaternion, t, s V3, sigma float64, ri int) {
	cs := Case{Kind: "maps-scaled", I: ri, A: s3(t), B: s3(s), C: []float64{sigma}}
	class := "scaled/" + sigmaClass(sigma)
	ra := r.ToArr()
	rq := quat{ra[0], ra[1], ra[2], ra[3]}
	ts := t.Scale(sigma)
	pts := []V3{v3(1, 0, 0), v3(0, -1, 0), v3(0.5, 0.25, -2), v3(1.0/3, -0.7, 0.9), v3(-3, 1, 4)}
	for i := range pts {
		pts[i] = pts[i].Scale(sigma)
	}
	out := "ok"
	bad := func(site, clause, detail string) {
		out = "mismatch"
		k.fail(site, clause, class, detail, cs)
	}
	T := trs.New(ts, r, s)
	want := make([]V3, len(pts))
	mags := make([]float64, len(pts))
	for i, p := range pts {
		sp := v3(p.X()*s.X(), p.Y()*s.Y(), p.Z()*s.Z())
		want[i] = refRotate(rq, sp).Add(ts)
		mags[i] = sp.Length() + ts.Length()
		if got := r.Rotate(p); !relNear3(got, refRotate(rq, p), 1e-9, p.Length()) {
			bad("quaternion.Quaternion.Rotate", "rotation by a unit quaternion equals q v q* (tolerance proportional to |v|)", fmt.Sprintf("q=%v v=%v got=%v want=%v", ra, p, got, refRotate(rq, p)))
		} else if math.Abs(got.Length()-p.Length()) > 1e-9*p.Length() {
			bad("quaternion.Quaternion.Rotate", "rotation preserves length (tolerance proportional to |v|)", fmt.Sprintf("q=%v v=%v |v|=%v |Rv|=%v", ra, p, p.Length(), got.Length()))
		}
		if got := T.Transform(p); !relNear3(got, want[i], 1e-9, mags[i]) {
			bad("trs.TRS.Transform", "TRS applies scale, then rotation, then translation (tolerance proportional to magnitude)", fmt.Sprintf("t=%v r=%v s=%v p=%v got=%v want=%v", ts, ra, s, p, got, want[i]))
		}
	}
	arrOut := T.TransformArray(pts)
	inPlace := append([]V3{}, pts...)
	T.TransformInPlace(inPlace)
	for i := range pts {
		if len(arrOut) != len(pts) || !relNear3(arrOut[i], want[i], 1e-9, mags[i]) || !relNear3(inPlace[i], want[i], 1e-9, mags[i]) {
			bad("trs.TRS.TransformArray/InPlace", "array forms equal the point map", fmt.Sprintf("i=%d sigma=%v", i, sigma))
			break
		}
	}
	// the affine matrix of the same map (built from the reference rotation) moves points alike
	M := fromArr(affineOf(rq, ts, s))
	for i, p := range pts {
		if got := M.MulPosition(p); !relNear3(got, want[i], 1e-9, mags[i]) {
			bad("mat.Matrix4x4.MulPosition", "MulPosition is row-by-column on (p,1) (tolerance proportional to magnitude)", fmt.Sprintf("t=%v r=%v s=%v p=%v got=%v want=%v", ts, ra, s, p, got, want[i]))
			break
		}
	}
	// mesh level
	m := modeling.NewMesh(modeling.TriangleTopology, []int{0, 1, 2, 2, 1, 3, 4, 0, 2}).SetFloat3Attribute(modeling.PositionAttribute, append([]V3{}, pts...))
	for _, o := range []struct {
		name string
		got  modeling.Mesh
		f    func(int) (V3, float64)
	}{
		{"Mesh.Rotate", m.Rotate(r), func(i int) (V3, float64) { return refRotate(rq, pts[i]), pts[i].Length() }},
		{"Mesh.Translate", m.Translate(ts), func(i int) (V3, float64) { return pts[i].Add(ts), pts[i].Length() + ts.Length() }},
		{"Mesh.Scale", m.Scale(s), func(i int) (V3, float64) {
			p := pts[i]
			w := v3(p.X()*s.X(), p.Y()*s.Y(), p.Z()*s.Z())
			return w, w.Length()
		}},
		{"Mesh.ApplyTRS", m.ApplyTRS(T), func(i int) (V3, float64) { return want[i], mags[i] }},
	} {
		got := meshPositions(o.got)
		if len(got) != len(pts) {
			bad("modeling."+o.name, "mesh-level transform moves positions like the point map", "vertex count changed")
			continue
		}
		for i := range got {
			if w, mag := o.f(i); !relNear3(got[i], w, 1e-9, mag) {
				bad("modeling."+o.name, "mesh-level transform moves positions like the point map (tolerance proportional to magnitude)", fmt.Sprintf("sigma=%v vertex %d got=%v want=%v", sigma, i, got[i], w))
				break
			}
		}
	}
	k.c.Eval("maps.scaled", out)
	k.c.Nontrivial("maps-scaled", ri, fmt.Sprint(t, s), sigma)
}

// ladderPoint: point i of a size-ladder array — non-periodic, vertex-unique, mixed signs.
func ladderPoint(i int) V3 {
	f := float64(i)
	return v3(math.Mod(f*0.6180339887498949, 1)*8-4, math.Mod(f*0.7548776662466927, 1)*6-1, f*0.001-math.Mod(f*0.5698402909980532, 1))
}

// sizeCase: the array / in-place / mesh forms on n points, every element against the point map.
func (k checker) sizeCase(n int) {
	cs := Case{Kind: "size", I: n}
	class := "size-ladder"
	r := quaternion.FromTheta(1.1, v3(1, 2, -3))
	ra := r.ToArr()
	rq := quat{ra[0], ra[1], ra[2], ra[3]}
	t, s := v3(-4, 0.5, 8), v3(0.25, 4, 2)
	T := trs.New(t, r, s)
	pts := make([]V3, n)
	idx := make([]int, n)
	for i := range pts {
		pts[i], idx[i] = ladderPoint(i), i
	}
	orig := append([]V3{}, pts...)
	out := "ok"
	bad := func(site, clause, detail string) {
		out = "mismatch"
		k.fail(site, clause, class, detail, cs)
	}
	trsOf := func(p V3) V3 { return refRotate(rq, v3(p.X()*s.X(), p.Y()*s.Y(), p.Z()*s.Z())).Add(t) }
	cmp := func(site string, got []V3, f func(V3) V3) {
		if len(got) != n {
			bad(site, "array and mesh forms move every position like the point map", fmt.Sprintf("n=%d: %d results", n, len(got)))
			return
		}
		for i := range got {
			if w := f(orig[i]); !relNear3(got[i], w, 1e-9, 1+w.Length()) {
				bad(site, "array and mesh forms move every position like the point map", fmt.Sprintf("n=%d element %d got=%v want=%v", n, i, got[i], w))
				return
			}
		}
	}
	cmp("trs.TRS.TransformArray", T.TransformArray(pts), trsOf)
	for i := range pts {
		if pts[i] != orig[i] {
			bad("trs.TRS.TransformArray", "TransformArray leaves its argument alone", fmt.Sprintf("n=%d element %d of the input changed", n, i))
			break
		}
	}
	inPlace := append([]V3{}, pts...)
	T.TransformInPlace(inPlace)
	cmp("trs.TRS.TransformInPlace", inPlace, trsOf)
	m := modeling.NewMesh(modeling.PointTopology, idx).SetFloat3Attribute(modeling.PositionAttribute, append([]V3{}, pts...))
	cmp("modeling.Mesh.ApplyTRS", meshPositions(m.ApplyTRS(T)), trsOf)
	cmp("modeling.Mesh.Rotate", meshPositions(m.Rotate(r)), func(p V3) V3 { return refRotate(rq, p) })
	cmp("modeling.Mesh.Translate", meshPositions(m.Translate(t)), func(p V3) V3 { return p.Add(t) })
	cmp("modeling.Mesh.Scale", meshPositions(m.Scale(s)), func(p V3) V3 { return v3(p.X()*s.X(), p.Y()*s.Y(), p.Z()*s.Z()) })
	cmp("modeling.Mesh (receiver after the transforms)", meshPositions(m), func(p V3) V3 { return p })
	k.c.Eval("size-ladder", out)
	k.c.Nontrivial("size", n)
}

// affineOf: the row-major 4×4 matrix of p ↦ R(q)(s∘p) + t, from the reference rotation.
func affineOf(q quat, t, s V3) (a m16) {
	e := []V3{v3(s.X(), 0, 0), v3(0, s.Y(), 0), v3(0, 0, s.Z())}
	for c := 0; c < 3; c++ {
		col := refRotate(q, e[c])
		a[c], a[4+c], a[8+c] = col.X(), col.Y(), col.Z()
	}
	a[3], a[7], a[11], a[15] = t.X(), t.Y(), t.Z(), 1
	return
}

func ladderRots() []quaternion.Quaternion {
	return []quaternion.Quaternion{
		quaternion.Identity(),
		quaternion.FromTheta(math.Pi/2, v3(0, 1, 0)),
		quaternion.FromTheta(math.Pi, v3(0, 0, 1)),
		quaternion.FromTheta(1.1, v3(1, 2, -3)),
		quaternion.FromTheta(-2.3, v3(-1, 0.5, 0.25)),
		quaternion.FromTheta(0.4, v3(0, 0, 1)),
	}
}

func (k checker) runLadders(mine func() bool) {
	c := k.c
	sig := sigmas()
	// matrices: the 24 signed-scaled permutation matrices with two extra entries (the det-product family)
	// and six dense affine matrices
	var fam []m16
	scales := []float64{-1, 1, 2}
	for pi, p := range perms4 {
		var a m16
		for r := 0; r < 4; r++ {
			a[4*r+p[r]] = scales[(pi+r)%3]
		}
		a[(pi*5+3)%16] += 1
		a[(pi*3+7)%16] -= 2
		fam = append(fam, a)
	}
	rots := ladderRots()
	var affine []m16
	for i, r := range rots {
		ra := r.ToArr()
		affine = append(affine, affineOf(quat{ra[0], ra[1], ra[2], ra[3]}, v3(3, -2, 5).Scale(float64(i%3)), v3(1, 1, 1)))
	}
	for _, a := range fam {
		if !mine() {
			continue
		}
		for _, s := range sig {
			k.matInvScaled(a, s, "all")
		}
	}
	for _, a := range affine {
		if !mine() {
			continue
		}
		for _, s := range sig {
			k.matInvScaled(a, s, "affine")
			k.matInvScaled(a, s, "all")
		}
	}
	tls := []V3{v3(0, 0, 0), v3(1, 2, 3), v3(-4, 0.5, 8)}
	scs := []V3{v3(1, 1, 1), v3(2, 0.5, -1), v3(0.25, 4, 2)}
	for ri, r := range rots {
		for _, t := range tls {
			for _, s := range scs {
				if !mine() {
					continue
				}
				for _, sg := range sig {
					k.pointMapsScaled(r, t, s, sg, ri)
				}
			}
		}
	}
	c.Bound("magnitude_ladder", fmt.Sprintf("sigma in %v: det/inverse of %d sparse + %d affine matrices (all entries / linear block scaled); rotation, TRS, TRS matrix and mesh transforms over %d rotations x %d translations x %d scales", sig, len(fam), len(affine), len(rots), len(tls), len(scs)))
	maxK := 15
	if c.Thorough() {
		maxK = 17
	}
	var sizes []int
	for kk := 2; kk <= maxK; kk++ {
		sizes = append(sizes, 1<<kk-1, 1<<kk, 1<<kk+1, 1<<kk+1<<(kk-1)+3)
	}
	for _, n := range sizes {
		if !mine() {
			continue
		}
		k.sizeCase(n)
		if n >= 4095 && n <= 1<<15+1 {
			// the same arrays with the process limited to / given more processors than the job's default:
			// work split by the processor count leaves another remainder for each value, and a cap on the
			// number of workers only shows above it
			for _, pr := range procsLadder {
				c.WithProcs(pr, func() { k.sizeCase(n) })
			}
		}
	}
	c.Bound("size_ladder_processors", fmt.Sprintf("rungs 4095..32769 also on %v processors", procsLadder))
	k.runAlmostSpecial(mine)
	c.Bound("size_ladder", fmt.Sprintf("TransformArray/TransformInPlace/Mesh.ApplyTRS/Rotate/Translate/Scale on n points, n = 2^k-1, 2^k, 2^k+1, 3*2^(k-1)+3 for k=2..%d (largest %d), every element compared", maxK, sizes[len(sizes)-1]))
}

var procsLadder = []int{1, 3, 5, 7, 17, 24, 40, 64}

// almost-special matrices: a fast path recognises a class of matrices by a cheap test (bottom row
// 0 0 0 1, unit-length columns, orthogonal columns, unit determinant …).  This family satisfies some
// of those tests and not the others: linear blocks whose columns (or rows) are drawn from a menu of
// unit and non-unit vectors — every ordered triple with a non-zero determinant — with and without a
// translation, under three bottom rows.  Judged by the determinant and inverse laws like every other
// matrix, and by the product law against the reference product.
func unitMenu() []V3 {
	r2 := math.Sqrt(2)
	return []V3{
		v3(1, 0, 0), v3(0, 1, 0), v3(0, 0, 1), v3(-1, 0, 0), v3(0, 0, -1),
		v3(0.6, 0.8, 0), v3(0.8, 0, -0.6), v3(0, -0.6, 0.8),
		v3(1.0/3, 2.0/3, 2.0/3), v3(2.0/3, -2.0/3, 1.0/3), v3(2.0/7, 3.0/7, 6.0/7),
		v3(1/r2, 1/r2, 0), v3(0.5, 0.5, 0), v3(0, 2, 0),
	}
}

func (k checker) runAlmostSpecial(mine func() bool) {
	menu := unitMenu()
	trans := []V3{v3(0, 0, 0), v3(1, -2, 3)}
	bottoms := [][4]float64{{0, 0, 0, 1}, {0, 0, 0, 2}, {0.5, 0, 0.25, 1}}
	n := 0
	for i, a := range menu {
		for j, b := range menu {
			if !mine() {
				continue
			}
			for l, cc := range menu {
				if i == j || j == l || i == l {
					continue
				}
				cols := [3]V3{a, b, cc}
				for _, t := range trans {
					for _, bt := range bottoms {
						for tr := 0; tr < 2; tr++ {
							var m m16
							for c := 0; c < 3; c++ {
								x := [3]float64{cols[c].X(), cols[c].Y(), cols[c].Z()}
								for r := 0; r < 3; r++ {
									if tr == 0 {
										m[4*r+c] = x[r]
									} else {
										m[4*c+r] = x[r]
									}
								}
							}
							m[3], m[7], m[11] = t.X(), t.Y(), t.Z()
							m[12], m[13], m[14], m[15] = bt[0], bt[1], bt[2], bt[3]
							if math.Abs(refDet(m)) < 1e-3 {
								continue
							}
							n++
							k.matInv(m, Case{Kind: "inv1", A: m[:]})
							k.matPair(m, affineOf(quat{0, 0, 0, 1}, v3(2, 0, -1), v3(1, 2, 3)), "almost-special")
						}
					}
				}
			}
		}
	}
	k.c.Bound("almost_special_matrices", fmt.Sprintf("linear blocks with columns / rows from %d unit and non-unit vectors (every ordered triple, |det| >= 1e-3) x %d translations x %d bottom rows", len(menu), len(trans), len(bottoms)))
}
