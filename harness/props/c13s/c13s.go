// Package c13s: concurrent parameter updates, parameter reads and artifact generation on one
// graph.Instance are linearizable on every schedule (DESIGN §4 C13). The real Instance, instrumented
// at build time, runs under the controlled scheduler; every complete interleaving's call/return
// history is checked by porcupine against the sequential model "two integers; artifact =
// render(state)"; ThreadSanitizer runs on every explored schedule.
package c13s

import (
	"bytes"
	"encoding/json"
	"fmt"
	"io"
	"log"
	"net/http"
	"net/http/httptest"
	"os"
	"strconv"
	"strings"

	"github.com/EliCDavis/polyform/generator"

	"github.com/EliCDavis/polyform/generator/artifact"
	"github.com/EliCDavis/polyform/generator/artifact/basics"
	"github.com/EliCDavis/polyform/generator/graph"
	"github.com/EliCDavis/polyform/generator/parameter"
	"github.com/EliCDavis/polyform/nodes"
	"github.com/EliCDavis/polyform/refutil"
	"github.com/EliCDavis/polyform/verifrt/vsched"
	"github.com/anishathalye/porcupine"

	"verif/harness/core"
	"verif/harness/mapord"
	"verif/harness/schedlib"
)

func init() { core.Register(core.Check{ID: "C13s", Run: run, Replay: replay}) }

// ---- harness graph: every processor embeds the parameter values it saw and yields between
// reading its inputs, so a torn snapshot is observable and an unprotected evaluation interleavable ----

type S1Data struct {
	A nodes.NodeOutput[int]
	B nodes.NodeOutput[int]
}

func (d S1Data) Process() (string, error) {
	a := d.A.Value()
	vsched.Yield()
	b := d.B.Value()
	return fmt.Sprintf("a%d b%d", a, b), nil
}

type S2Data struct {
	S nodes.NodeOutput[string]
	A nodes.NodeOutput[int]
}

func (d S2Data) Process() (string, error) {
	s := d.S.Value()
	vsched.Yield()
	a := d.A.Value()
	return fmt.Sprintf("%s|a%d", s, a), nil
}

type P1Data struct {
	S nodes.NodeOutput[string]
	B nodes.NodeOutput[int]
}

func (d P1Data) Process() (artifact.Artifact, error) {
	s := d.S.Value()
	vsched.Yield()
	b := d.B.Value()
	return basics.Text{Data: fmt.Sprintf("%s|b%d", s, b)}, nil
}

type P2Data struct {
	S nodes.NodeOutput[string]
}

// S3Data hands its input on unchanged: it puts p2 three node levels above the parameters (p2 -> s3
// -> s1 -> a, b) with no shorter path, so that p2 learns of an update only through the staleness of
// nodes whose own versions have not moved yet.
type S3Data struct {
	S nodes.NodeOutput[string]
}

func (d S3Data) Process() (string, error) { return d.S.Value(), nil }

// P2 cannot render one state of the graph (a = 2 and b = 2): its processor panics, as a processor
// handed an impossible parameter combination does.  The failed call fails; nothing else may follow
// from it — the next call on that state fails again, the next call on another state succeeds.
func (d P2Data) Process() (artifact.Artifact, error) {
	s := d.S.Value()
	if s == "a2 b2" {
		panic("p2 cannot render " + s)
	}
	return basics.Text{Data: s}, nil
}

// P4Data renders the float parameter d.
type P4Data struct {
	D nodes.NodeOutput[float64]
}

func (d P4Data) Process() (artifact.Artifact, error) {
	return basics.Text{Data: "d" + strconv.FormatFloat(d.D.Value(), 'g', -1, 64)}, nil
}

// the values of d lie within 1e-9 of each other and of the default 0
var dValues = [3]float64{0, 1e-10, 4e-10}

// P3Data passes a slice-typed parameter through: the artifact keeps the slice it was given and
// renders it only when it is written out — which the server (and this harness) does after the call
// returned, outside the lock.
type P3Data struct {
	C nodes.NodeOutput[[]int]
}

type sliceArtifact struct{ data []int }

func (s sliceArtifact) Write(w io.Writer) error {
	_, err := fmt.Fprintf(w, "c%v", s.data)
	return err
}
func (sliceArtifact) Mime() string { return "text/plain" }

func (d P3Data) Process() (artifact.Artifact, error) {
	return sliceArtifact{d.C.Value()}, nil
}

var cValues = [3][]int{{1, 2, 3}, {7, 8, 9}, {4, 5, 6}}

func render3(c int) string { return fmt.Sprintf("c%v", cValues[c]) }

func render1(a, b int) string { return fmt.Sprintf("a%d b%d|a%d|b%d", a, b, a, b) }
func render2(a, b int) string { return fmt.Sprintf("a%d b%d", a, b) }

type world struct {
	inst          *graph.Instance
	v0            uint32 // model version right after construction
	aID, bID, cID string
	dID           string
	// server mode: the real HTTP endpoints (nil when the clients call the Instance directly)
	paramH, prodH http.Handler
}

func floatParts() (d *parameter.Value[float64], p4 nodes.NodeOutput[artifact.Artifact]) {
	d = &parameter.Value[float64]{Name: "d", DefaultValue: 0}
	p4 = (&nodes.Struct[artifact.Artifact, P4Data]{Data: P4Data{D: d.Out()}}).Out()
	return
}

func graphParts() (a, b *parameter.Value[int], cp *parameter.Value[[]int], p1, p2, p3 nodes.NodeOutput[artifact.Artifact]) {
	cp = &parameter.Value[[]int]{Name: "c", DefaultValue: append([]int{}, cValues[0]...)}
	p3 = (&nodes.Struct[artifact.Artifact, P3Data]{Data: P3Data{C: cp.Out()}}).Out()
	a = &parameter.Value[int]{Name: "a", DefaultValue: 0}
	b = &parameter.Value[int]{Name: "b", DefaultValue: 0}
	s1 := &nodes.Struct[string, S1Data]{Data: S1Data{A: a.Out(), B: b.Out()}}
	s2 := &nodes.Struct[string, S2Data]{Data: S2Data{S: s1.Out(), A: a.Out()}}
	p1 = (&nodes.Struct[artifact.Artifact, P1Data]{Data: P1Data{S: s2.Out(), B: b.Out()}}).Out()
	s3 := &nodes.Struct[string, S3Data]{Data: S3Data{S: s1.Out()}}
	p2 = (&nodes.Struct[artifact.Artifact, P2Data]{Data: P2Data{S: s3.Out()}}).Out()
	return
}

// build constructs a fresh system. via: "instance" (clients call graph.Instance), "server" (clients
// go through the real parameter-value and producer HTTP endpoints, autosave off) or "server+autosave".
func build(via string) world {
	a, b, cp, p1, p2, p3 := graphParts()
	d, p4 := floatParts()
	if via == "" || via == "instance" {
		inst := graph.New(&refutil.TypeFactory{})
		inst.AddProducer("p1", p1)
		inst.AddProducer("p2", p2)
		inst.AddProducer("p3", p3)
		inst.AddProducer("p4", p4)
		return world{inst: inst, v0: inst.ModelVersion(), aID: inst.NodeId(a), bID: inst.NodeId(b), cID: inst.NodeId(cp), dID: inst.NodeId(d)}
	}
	app := &generator.App{Name: "verif", Files: map[string]nodes.NodeOutput[artifact.Artifact]{"p1": p1, "p2": p2, "p3": p3, "p4": p4}}
	savePath := ""
	if via == "server+autosave" {
		savePath = autosavePath()
	}
	inst, ph, prh := generator.VerifEndpoints(app, savePath)
	return world{inst: inst, v0: inst.ModelVersion(), aID: inst.NodeId(a), bID: inst.NodeId(b), cID: inst.NodeId(cp), dID: inst.NodeId(d), paramH: ph, prodH: prh}
}

var autosaveFile string

func autosavePath() string {
	if autosaveFile == "" {
		dir := ""
		if st, err := os.Stat("/dev/shm"); err == nil && st.IsDir() {
			dir = "/dev/shm" // the autosave file is rewritten on every update: keep it off the disk
		}
		log.SetOutput(io.Discard) // GraphSaver logs every save
		f, err := os.CreateTemp(dir, "c13-autosave-*.json")
		if err != nil {
			panic(err)
		}
		f.Close()
		autosaveFile = f.Name()
	}
	return autosaveFile
}

// ---- operations ----

// Op codes: "Ua1" update a:=1 … "Ra" ParameterData(a), "A1" Artifact(p1), "A2" Artifact(p2).
var alphabet = []string{"Ua1", "Ub1", "Ra", "A1", "A2", "Ub2", "Ua2", "Rb"}

// the slice-typed parameter c and its pass-through producer p3
var sliceAlphabet = []string{"Uc1", "A3", "Uc2", "Rc"}

// the float parameter d (values within 1e-9 of each other and of the default) and its producer p4
var floatAlphabet = []string{"Ud1", "A4", "Ud2", "Rd"}

// a = 2, b = 2 is the state p2 panics on
var panicAlphabet = []string{"Ua2", "Ub2", "A2", "Ua1"}

// an update addressed to a node id that does not exist, among ordinary operations
var strayAlphabet = []string{"Ux", "Ua1", "A1", "Ra"}

type opIn struct{ code string }

type mstate struct{ a, b, c, d, v int } // v: number of completed updates = the model version

var model = porcupine.Model{
	Init: func() interface{} { return mstate{} },
	Step: func(state, input, output interface{}) (bool, interface{}) {
		s := state.(mstate)
		code := input.(opIn).code
		switch code[0] {
		case 'U':
			if code[1] == 'x' {
				// an update addressed to a node that is not a parameter fails (the instance panics by
				// contract, the endpoint answers 500) and changes nothing
				return output.(string) == "panic", s
			}
			v := int(code[2] - '0')
			if code[1] == 'a' || code[1] == 'b' {
				v, _ = strconv.Atoi(code[2:]) // the int parameters also take numbers of several digits
			}
			switch code[1] {
			case 'a':
				s.a = v
			case 'b':
				s.b = v
			case 'c':
				s.c = v
			case 'd':
				s.d = v
			}
			s.v++
			return output.(string) == "ok", s
		case 'V':
			// the model version clients poll (/started, the websocket hub) counts the updates applied so far
			return output.(string) == fmt.Sprint(s.v), s
		case 'R':
			want := fmt.Sprint(s.a)
			switch code[1] {
			case 'b':
				want = fmt.Sprint(s.b)
			case 'c':
				b, _ := json.Marshal(cValues[s.c])
				want = string(b)
			case 'd':
				b, _ := json.Marshal(dValues[s.d])
				want = string(b)
			}
			return output.(string) == want, s
		case 'A':
			switch code[1] {
			case '1':
				return output.(string) == render1(s.a, s.b), s
			case '2':
				if s.a == 2 && s.b == 2 {
					return output.(string) == "panic", s // the one state p2 cannot render
				}
				return output.(string) == render2(s.a, s.b), s
			case '4':
				return output.(string) == "d"+strconv.FormatFloat(dValues[s.d], 'g', -1, 64), s
			}
			return output.(string) == render3(s.c), s
		}
		return false, s
	},
	DescribeOperation: func(input, output interface{}) string {
		return fmt.Sprintf("%s -> %v", input.(opIn).code, output)
	},
}

func perform(w world, code string) string {
	if w.paramH != nil {
		return performHTTP(w, code)
	}
	switch code[0] {
	case 'V':
		return fmt.Sprint(w.inst.ModelVersion() - w.v0)
	case 'U':
		var uerr error
		if panicked := func() (p bool) {
			defer func() {
				if recover() != nil {
					p = true
				}
			}()
			_, uerr = w.inst.UpdateParameter(w.paramID(code), message(code))
			return
		}(); panicked {
			return "panic"
		}
		if uerr != nil {
			return "error: " + uerr.Error()
		}
		return "ok"
	case 'R':
		return string(w.inst.ParameterData(w.paramID(code)))
	case 'A':
		var art artifact.Artifact
		if panicked := func() (p bool) {
			defer func() {
				if recover() != nil {
					p = true
				}
			}()
			art = w.inst.Artifact("p" + code[1:2])
			return
		}(); panicked {
			return "panic"
		}
		// the artifact is written out after the call returned, outside the lock (as the server does):
		// another client's complete update may run in between
		vsched.Yield()
		buf := &bytes.Buffer{}
		if err := art.Write(buf); err != nil {
			return "error: " + err.Error()
		}
		return buf.String()
	}
	return "?"
}

// performHTTP issues the operation as the request the editor / a client would send, served
// synchronously by the real endpoint in the calling (controlled) thread.
func (w world) paramID(code string) string {
	switch code[1] {
	case 'b':
		return w.bID
	case 'c':
		return w.cID
	case 'd':
		return w.dID
	case 'x':
		return "Node-404" // no such node
	}
	return w.aID
}

// message is the JSON body of an update: the digit itself for the int parameters, one of the
// slices for the slice-typed one.
func message(code string) []byte {
	if code[1] == 'c' {
		b, _ := json.Marshal(cValues[code[2]-'0'])
		return b
	}
	if code[1] == 'd' {
		b, _ := json.Marshal(dValues[code[2]-'0'])
		return b
	}
	if code[1] == 'x' {
		return []byte("1")
	}
	return []byte(code[2:])
}

func performHTTP(w world, code string) string {
	if code[0] == 'V' {
		return fmt.Sprint(w.inst.ModelVersion() - w.v0)
	}
	rec := httptest.NewRecorder()
	id := ""
	if code[0] != 'A' {
		id = w.paramID(code)
	}
	switch code[0] {
	case 'U':
		if panicked := func() (p bool) {
			defer func() {
				if recover() != nil {
					p = true
				}
			}()
			w.paramH.ServeHTTP(rec, httptest.NewRequest(http.MethodPost, "/parameter/value/"+id, bytes.NewReader(message(code))))
			return
		}(); panicked {
			return "panic"
		}
		if code[1] == 'x' && rec.Code >= 400 {
			return "panic" // refused, however the endpoint words it
		}
		if rec.Code != http.StatusOK {
			return fmt.Sprintf("http %d: %s", rec.Code, rec.Body.String())
		}
		return "ok"
	case 'R':
		w.paramH.ServeHTTP(rec, httptest.NewRequest(http.MethodGet, "/parameter/value/"+id, nil))
		return rec.Body.String()
	case 'A':
		// a processor panic is the request's failure (net/http recovers it per request); the server goes on
		if panicked := func() (p bool) {
			defer func() {
				if recover() != nil {
					p = true
				}
			}()
			w.prodH.ServeHTTP(rec, httptest.NewRequest(http.MethodGet, "/producer/value/p"+code[1:2], nil))
			return
		}(); panicked {
			return "panic"
		}
		if rec.Code == http.StatusInternalServerError && strings.Contains(rec.Body.String(), "panic recover") {
			return "panic" // the endpoint's own recovery: the request failed, as the call does on the instance
		}
		if rec.Code != http.StatusOK {
			return fmt.Sprintf("http %d: %s", rec.Code, rec.Body.String())
		}
		return rec.Body.String()
	}
	return "?"
}

// Program: one op list per client thread.
type Program [][]string

func (p Program) String() string {
	var parts []string
	for _, t := range p {
		parts = append(parts, strings.Join(t, ","))
	}
	return strings.Join(parts, " || ")
}

// ScnCase is what a schedule violation records about the scenario.
type ScnCase struct {
	Via     string  `json:"via"`
	Program Program `json:"program"`
}

func scenario(via string, p Program, bounds []int) schedlib.Scenario {
	return scenarioIn("", via, p, bounds)
}

func scenarioIn(family, via string, p Program, bounds []int) schedlib.Scenario {
	site := "graph.Instance"
	if via != "instance" {
		site = "generator.parameterValueEndpoint/ProducerEndpoint"
	}
	return schedlib.Scenario{
		Name: via + ": " + p.String(), Scope: family, Bounds: bounds, MaxPoints: 900, Case: ScnCase{via, p}, Site: site, Whole: true,
		Make: func() (func(), func(vsched.Exec) (string, *core.Violation)) {
			w := build(via)
			nops := 0
			for _, t := range p {
				nops += len(t)
			}
			ops := make([]porcupine.Operation, nops)
			idx := 0
			var bodies []func()
			for ti, t := range p {
				ti, t, base := ti, t, idx
				idx += len(t)
				bodies = append(bodies, func() {
					for k, code := range t {
						o := &ops[base+k]
						o.ClientId = ti
						o.Input = opIn{code}
						o.Call = vsched.Now()
						o.Output = perform(w, code)
						o.Return = vsched.Now()
					}
				})
			}
			root := func() {
				for _, b := range bodies {
					vsched.Go0(b)
				}
			}
			oracle := func(x vsched.Exec) (string, *core.Violation) {
				var outs []string
				for _, o := range ops {
					if o.Output == nil {
						return "incomplete", &core.Violation{Site: site, Clause: "every call returns", Class: "incomplete", Detail: p.String()}
					}
					outs = append(outs, fmt.Sprintf("%s->%s", o.Input.(opIn).code, o.Output))
				}
				res := porcupine.CheckOperations(model, ops)
				if !res {
					return "not-linearizable", &core.Violation{
						Site:   site + "." + firstKinds(p),
						Clause: "concurrent calls behave as if executed one at a time in an order consistent with real time",
						Class:  via + "/" + classOf(p),
						Detail: fmt.Sprintf("program %s observed %v (call/return steps %v)", p.String(), outs, times(ops)),
					}
				}
				return strings.Join(outs, " "), nil
			}
			return root, oracle
		},
	}
}

func times(ops []porcupine.Operation) [][2]int64 {
	var t [][2]int64
	for _, o := range ops {
		t = append(t, [2]int64{o.Call, o.Return})
	}
	return t
}

// firstKinds names the API calls involved (sorted, distinct).
func firstKinds(p Program) string {
	has := map[byte]bool{}
	for _, t := range p {
		for _, c := range t {
			has[c[0]] = true
		}
	}
	var k []string
	if has['U'] {
		k = append(k, "UpdateParameter")
	}
	if has['R'] {
		k = append(k, "ParameterData")
	}
	if has['A'] {
		k = append(k, "Artifact")
	}
	if has['V'] {
		k = append(k, "ModelVersion")
	}
	return strings.Join(k, "+")
}

func classOf(p Program) string { return fmt.Sprintf("clients=%d", len(p)) }

// ---- program enumeration (up to thread symmetry: op lists in non-decreasing order) ----

func seqs(alpha []string, maxLen int) [][]string {
	var out [][]string
	var rec func(cur []string)
	rec = func(cur []string) {
		if len(cur) > 0 {
			out = append(out, append([]string{}, cur...))
		}
		if len(cur) == maxLen {
			return
		}
		for _, a := range alpha {
			rec(append(cur, a))
		}
	}
	rec(nil)
	return out
}

func programs(alpha []string, threads, maxLen int) []Program {
	ss := seqs(alpha, maxLen)
	var out []Program
	var rec func(start int, cur Program)
	rec = func(start int, cur Program) {
		if len(cur) == threads {
			// vacuous programs (no update, or nothing observing) are skipped
			upd, obs := false, false
			for _, t := range cur {
				for _, c := range t {
					if c[0] == 'U' {
						upd = true
					} else {
						obs = true
					}
				}
			}
			if upd && obs {
				out = append(out, append(Program{}, cur...))
			}
			return
		}
		for i := start; i < len(ss); i++ {
			rec(i, append(cur, ss[i]))
		}
	}
	rec(0, nil)
	return out
}

func run(c *core.Ctx) {
	mapord.Pin() // map iteration order is owned (pinned to the default) so that schedules replay exactly
	rl := schedlib.NewRaceLog()
	defer vsched.SetReducedPoints(false)
	c.Bound("race_detector_attribution", rl.On)
	if err := schedlib.SelfTest(rl); err != "" {
		c.HarnessError("scheduler self-test failed: %s", err)
		return
	}
	type family struct {
		name    string
		via     string
		alpha   []string
		threads int
		maxLen  int
		progs   []Program // set: the programs of the family, listed instead of enumerated
	}
	fams := []family{
		{"instance: 2 clients x <=2 ops, 8-op alphabet", "instance", alphabet, 2, 2, nil},
		{"instance: 3 clients x 1 op, 8-op alphabet", "instance", alphabet, 3, 1, nil},
		{"instance: slice-typed parameter, 2 clients x <=2 ops", "instance", sliceAlphabet, 2, 2, nil},
		{"instance: model version polled, 2 clients x <=2 ops", "instance", []string{"Ua1", "V", "A1", "Ub1"}, 2, 2, nil},
		{"server: 2 clients x <=2 ops, 5-op alphabet", "server", alphabet[:5], 2, 2, nil},
		{"server: slice-typed parameter, 2 clients x <=2 ops", "server", sliceAlphabet, 2, 2, nil},
		{"server+autosave: 2 clients x <=2 ops, 4-op alphabet", "server+autosave", alphabet[:4], 2, 2, nil},
		{"instance: float parameter with close values, 2 clients x <=2 ops", "instance", floatAlphabet, 2, 2, nil},
		{"instance: a state the producer cannot render, 2 clients x <=2 ops", "instance", panicAlphabet, 2, 2, nil},
		{"server: a state the producer cannot render, 2 clients x <=2 ops", "server", panicAlphabet, 2, 2, nil},
		{"instance: an update addressed to no parameter, 2 clients x <=2 ops", "instance", strayAlphabet, 2, 2, nil},
		{"server: an update addressed to no parameter, 2 clients x <=2 ops", "server", strayAlphabet, 2, 2, nil},
		{name: "instance: one client, two states of several-digit values, artifact after each", via: "instance", progs: twoStatePrograms()},
	}
	if c.Thorough() {
		fams = append(fams,
			family{name: "instance: 3 clients x <=2 ops, 5-op alphabet", via: "instance", alpha: alphabet[:5], threads: 3, maxLen: 2},
			family{name: "instance: slice-typed parameter, 3 clients x <=2 ops", via: "instance", alpha: sliceAlphabet[:3], threads: 3, maxLen: 2},
			family{name: "instance: slice + int parameters, 2 clients x <=2 ops", via: "instance", alpha: []string{"Uc1", "A3", "Ua1", "A1", "Uc2"}, threads: 2, maxLen: 2},
			family{name: "instance: 2 clients x <=3 ops, 5-op alphabet", via: "instance", alpha: alphabet[:5], threads: 2, maxLen: 3},
			family{name: "server: 3 clients x 1 op, 8-op alphabet", via: "server", alpha: alphabet, threads: 3, maxLen: 1},
			family{name: "server+autosave: 3 clients x 1 op, 8-op alphabet", via: "server+autosave", alpha: alphabet, threads: 3, maxLen: 1},
			family{name: "server+autosave: 2 clients x <=2 ops, 8-op alphabet", via: "server+autosave", alpha: alphabet, threads: 2, maxLen: 2},
			family{name: "server: one client, two states of several-digit values, artifact after each", via: "server", progs: twoStatePrograms()},
		)
	}
	vsched.SetReducedPoints(true) // points before every acquiring operation only (after the self-test)
	if c.Args["only"] == "loader" {
		// the job C12 runs: the graph loader under the scheduler (loader.go)
		if _, e := loaderSchema(); e != "" {
			c.HarnessError("loader scenario: the schema could not be built: %s", e)
		} else if c.Next() && !c.Expired() {
			c.Bound("loader", "one saved graph (8 numbers, a string, 3 images sharing a buffer) loaded and saved again; all interleavings of the loader's own goroutines, ThreadSanitizer per schedule")
			schedlib.Explore(c, rl, loaderScenario())
		}
		return
	}
	for _, f := range fams {
		ps := f.progs
		if ps == nil {
			ps = programs(f.alpha, f.threads, f.maxLen)
		}
		c.Bound(f.name, map[string]any{"programs": len(ps), "preemption_bound": "unbounded (all interleavings)"})
		for _, p := range ps {
			if !c.Next() {
				continue
			}
			if c.Expired() {
				return
			}
			schedlib.Explore(c, rl, scenarioIn(f.name, f.via, p, []int{-1}))
		}
	}
	if autosaveFile != "" {
		os.Remove(autosaveFile)
	}
}

func replay(c *core.Ctx) {
	var rc struct {
		Scenario ScnCase `json:"scenario"`
		Choices  []int   `json:"choices"`
		Bound    int     `json:"bound"`
	}
	if err := json.Unmarshal(c.Replay, &rc); err != nil {
		c.HarnessError("bad case: %v", err)
		return
	}
	mapord.Pin()
	vsched.SetReducedPoints(true)
	var lc struct {
		Scenario LoaderCase `json:"scenario"`
	}
	if json.Unmarshal(c.Replay, &lc) == nil && lc.Scenario.Loader {
		loaderSchema()
		schedlib.Replay(c, schedlib.NewRaceLog(), loaderScenario(), rc.Choices, rc.Bound)
		return
	}
	schedlib.Replay(c, schedlib.NewRaceLog(), scenario(rc.Scenario.Via, rc.Scenario.Program, nil), rc.Choices, rc.Bound)
	if autosaveFile != "" {
		os.Remove(autosaveFile)
	}
}

// several-digit values: the menu is chosen so that different states have the same digits when their
// values are written one after the other (1,23 / 12,3; 1,10 / 11,0; 2,11 / 21,1): a key built from
// the parameters' texts without a separator takes them for one state.
var digitMenu = []int{1, 12, 23, 3, 11, 0, 10, 21, 2}

// twoStatePrograms: one client sets a and b, reads artifact p1 (or p2), sets a and b again, reads again.
func twoStatePrograms() []Program {
	var out []Program
	for _, a1 := range digitMenu {
		for _, b1 := range digitMenu {
			for _, a2 := range digitMenu {
				for _, b2 := range digitMenu {
					if a1 == a2 && b1 == b2 {
						continue
					}
					// every pair of states whose texts collide, and a third of the others
					if fmt.Sprintf("%d%d", a1, b1) != fmt.Sprintf("%d%d", a2, b2) && (a1+b1+a2+b2)%3 != 0 {
						continue
					}
					art := "A1"
					if (a1+b2)%2 == 1 {
						art = "A2"
					}
					out = append(out, Program{{fmt.Sprint("Ua", a1), fmt.Sprint("Ub", b1), art, fmt.Sprint("Ua", a2), fmt.Sprint("Ub", b2), art}})
				}
			}
		}
	}
	return out
}

