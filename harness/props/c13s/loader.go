package c13s

// The graph loader under the controlled scheduler (C12's "a saved graph reloads to the same graph and
// bytes", on every schedule of whatever goroutines the loader starts).  A schema with twelve
// parameter nodes that carry saved data — eight numbers, a string and three images whose PNGs share
// one binary buffer of the file — is loaded into a fresh application and saved again; every
// interleaving at synchronisation operations is explored with ThreadSanitizer per schedule, and the
// saved bytes must be the loaded ones.  On the pinned tree the loader is sequential (one schedule).

import (
	"bytes"
	"fmt"
	"image"
	"image/color"
	"image/png"
	"sync"

	"github.com/EliCDavis/polyform/generator"
	"github.com/EliCDavis/polyform/generator/parameter"
	"github.com/EliCDavis/polyform/refutil"
	"github.com/EliCDavis/polyform/verifrt/vsched"

	"verif/harness/core"
	"verif/harness/schedlib"
)

var (
	loaderOnce   sync.Once
	loaderFile   []byte
	loaderErr    string
	tLoaderFloat = refutil.GetTypeWithPackage(new(parameter.Float64))
	tLoaderStr   = refutil.GetTypeWithPackage(new(parameter.String))
	tLoaderImage = refutil.GetTypeWithPackage(new(parameter.Image))
)

func loaderPng(seed int) []byte {
	img := image.NewNRGBA(image.Rect(0, 0, 24, 24))
	for y := 0; y < 24; y++ {
		for x := 0; x < 24; x++ {
			img.SetNRGBA(x, y, color.NRGBA{uint8(seed*37 + 11*x), uint8(seed*91 + 7*y), uint8(x*y + seed), 255})
		}
	}
	var b bytes.Buffer
	if err := png.Encode(&b, img); err != nil {
		panic(err)
	}
	return b.Bytes()
}

func loaderSchema() ([]byte, string) {
	loaderOnce.Do(func() {
		o := core.Guard(func() {
			app := &generator.App{Name: "verif", Version: "1", Description: "loader"}
			inst := generator.VerifInstance(app)
			for i := 0; i < 8; i++ {
				_, id, err := inst.CreateNode(tLoaderFloat)
				if err != nil {
					loaderErr = err.Error()
					return
				}
				inst.UpdateParameter(id, []byte(fmt.Sprintf("%d.5", i+1)))
			}
			_, id, err := inst.CreateNode(tLoaderStr)
			if err != nil {
				loaderErr = err.Error()
				return
			}
			inst.UpdateParameter(id, []byte(`"text"`))
			for i := 0; i < 3; i++ {
				_, id, err := inst.CreateNode(tLoaderImage)
				if err != nil {
					loaderErr = err.Error()
					return
				}
				inst.UpdateParameter(id, loaderPng(i+1))
			}
			loaderFile = app.Schema()
		})
		if o.Panicked {
			loaderErr = "panic: " + o.Msg
		}
	})
	return loaderFile, loaderErr
}

type LoaderCase struct {
	Loader bool `json:"loader"`
}

func loaderScenario() schedlib.Scenario {
	return schedlib.Scenario{
		Name: "loader: twelve parameter nodes with saved data, three images in one buffer", Scope: "loader: a saved graph loaded into a fresh application and saved again",
		Bounds: []int{-1}, MaxPoints: 4000, Case: LoaderCase{true}, Site: "graph.Instance.ApplyAppSchema", Whole: true,
		Make: func() (func(), func(vsched.Exec) (string, *core.Violation)) {
			file, _ := loaderSchema()
			var again []byte
			var lerr error
			var panicked string
			body := func() {
				defer func() {
					if r := recover(); r != nil {
						panicked = fmt.Sprint(r)
					}
				}()
				app := &generator.App{Name: "verif", Version: "1", Description: "loader"}
				app.Schema()
				if lerr = app.ApplySchema(file); lerr != nil {
					return
				}
				again = app.Schema()
			}
			root := func() { vsched.Go0(body) }
			oracle := func(x vsched.Exec) (string, *core.Violation) {
				v := func(class, detail string) *core.Violation {
					return &core.Violation{Site: "graph.Instance.ApplyAppSchema", Clause: "a saved graph reloads to the same graph and saves to the same bytes (on every schedule of the loader's own goroutines)", Class: "loader/" + class, Detail: detail}
				}
				switch {
				case panicked != "":
					return "panic", v("panic", panicked)
				case lerr != nil:
					return "load-error", v("load-error", lerr.Error())
				case !bytes.Equal(again, file):
					return "bytes-differ", v("bytes-differ", fmt.Sprintf("the file has %d bytes, the reloaded graph saves %d (or other content)", len(file), len(again)))
				}
				return "ok", nil
			}
			return root, oracle
		},
	}
}
