// Package c12m: a saved graph reloads to the same graph, artifacts and bytes (DESIGN §4 C12).
// Every edit history over the public graph.Instance editing API (bounded depth, several deliberately
// non-initial seeds — in particular array inputs with ten and more connections) is executed on the
// real code; after each history the graph is saved, loaded into a fresh instance and saved again,
// and the three results are compared (structure through public accessors, artifacts, bytes). Go map
// iteration order — which the encoder, the decoder and the instance use to enumerate nodes,
// dependencies, producers and metadata — is an owned environment answer (runtime overlay): the
// save/load/save pipeline is additionally executed under every single deviation of it.
package c12m

import (
	"bytes"
	"encoding/json"
	"fmt"
	"io"
	"log"
	"os"
	"sort"
	"strconv"
	"strings"

	"github.com/EliCDavis/polyform/generator"
	"github.com/EliCDavis/polyform/generator/artifact/basics"
	"github.com/EliCDavis/polyform/generator/graph"
	"github.com/EliCDavis/polyform/generator/parameter"
	"github.com/EliCDavis/polyform/nodes"
	"github.com/EliCDavis/polyform/refutil"

	"verif/harness/core"
	"verif/harness/mapord"
)

func init() { core.Register(core.Check{ID: "C12m", Run: run, Replay: replay}) }

// ---- harness node types: deterministic functions of their inputs ----

// ConcatData is order-sensitive in its array input.
type ConcatData struct {
	Values []nodes.NodeOutput[string]
	Tail   nodes.NodeOutput[string] // an ordinary input whose name sorts before the array input's
	Zed    nodes.NodeOutput[string] // … and one whose name sorts after it
}

func (c ConcatData) Process() (string, error) {
	var sb strings.Builder
	for _, v := range c.Values {
		sb.WriteString(nodes.TryGetOutputValue(v, "-") + ",")
	}
	sb.WriteString("|" + nodes.TryGetOutputValue(c.Tail, "-") + "|" + nodes.TryGetOutputValue(c.Zed, "-"))
	return sb.String(), nil
}

type ConcatNode = nodes.Struct[string, ConcatData]

// PairData has two scalar inputs of different types.
type PairData struct {
	Left  nodes.NodeOutput[string]
	Right nodes.NodeOutput[float64]
	Flag  nodes.NodeOutput[bool]
	Blob  nodes.NodeOutput[[]byte]
}

func (p PairData) Process() (string, error) {
	return fmt.Sprintf("<%s;%v;%v;%x>", nodes.TryGetOutputValue(p.Left, "-"), nodes.TryGetOutputValue(p.Right, -1), nodes.TryGetOutputValue(p.Flag, false), nodes.TryGetOutputValue(p.Blob, nil)), nil
}

type PairNode = nodes.Struct[string, PairData]

var (
	tConcat = refutil.GetTypeWithPackage(new(ConcatNode))
	tPair   = refutil.GetTypeWithPackage(new(PairNode))
	tText   = refutil.GetTypeWithPackage(new(basics.TextNode))
	tStr    = refutil.GetTypeWithPackage(new(parameter.String))
	tNum    = refutil.GetTypeWithPackage(new(parameter.Float64))
	tBool   = refutil.GetTypeWithPackage(new(parameter.Bool))
	tFile   = refutil.GetTypeWithPackage(new(parameter.File))
)

var typeOf = map[string]*string{"concat": &tConcat, "pair": &tPair, "text": &tText, "str": &tStr, "num": &tNum, "bool": &tBool, "file": &tFile}

// factory holds the harness-specific node types; text artifacts and the parameter types come from
// the library's own registrations (generator/artifact/basics, generator/parameter).
func factory() *refutil.TypeFactory {
	f := &refutil.TypeFactory{}
	refutil.RegisterType[ConcatNode](f)
	refutil.RegisterType[PairNode](f)
	return f
}

func save(app *generator.App) []byte { return app.Schema() }

// ---- operations ----

type Op struct {
	Kind string `json:"kind"`
	T    string `json:"t,omitempty"` // node kind
	A    int    `json:"a,omitempty"` // k-th node of kind T
	B    int    `json:"b,omitempty"`
	S    string `json:"s,omitempty"`
}

func (o Op) String() string {
	switch o.Kind {
	case "create":
		return "create(" + o.T + ")"
	case "set":
		return fmt.Sprintf("set(%s#%d,%s)", o.T, o.A, o.S)
	case "setnamed":
		return fmt.Sprintf("set(%s#%d,<%s>)", o.T, o.A, o.S)
	case "name":
		return fmt.Sprintf("name+description(%s#%d,%q)", o.T, o.A, o.S)
	case "arr":
		return fmt.Sprintf("connect(str#%d->concat.Values)", o.A)
	case "arrdel":
		return fmt.Sprintf("disconnect(concat.Values.%d)", o.A)
	case "wire":
		return fmt.Sprintf("connect(%s#%d->%s)", o.T, o.A, o.S)
	case "unwire":
		return "disconnect(" + o.S + ")"
	case "producer":
		return fmt.Sprintf("producer(text#%d,%q)", o.A, o.S)
	case "meta":
		return "setMetadata(" + o.S + ")"
	case "metadel":
		return "deleteMetadata(" + o.S + ")"
	case "delete":
		return fmt.Sprintf("delete(%s#last)", o.T)
	}
	return o.Kind
}

type world struct {
	app   *generator.App
	saver *generator.GraphSaver
	inst  *graph.Instance
	ids   []string
	kinds map[string]string
	arrN  int               // connected array slots of concat#0
	meta  map[string]string // reference model of the metadata: flattened leaf path -> canonical JSON value
}

// newWorld builds an App (as the CLI / editor does), takes its graph instance and attaches the real
// autosaver: after every editing operation the harness calls GraphSaver.Save(), exactly like every
// mutating endpoint of the server does.
func newWorld() *world {
	registerOnce()
	app := &generator.App{Name: "verif", Version: "1", Description: "c12"}
	w := &world{app: app, inst: generator.VerifInstance(app), kinds: map[string]string{}, meta: map[string]string{}}
	w.saver = generator.VerifSaver(app, autosavePath())
	return w
}

var registered bool

func registerOnce() {
	if !registered {
		generator.RegisterTypes(factory())
		registered = true
	}
}

var autosaveFile string

func autosavePath() string {
	if autosaveFile == "" {
		dir := ""
		if st, err := os.Stat("/dev/shm"); err == nil && st.IsDir() {
			dir = "/dev/shm"
		}
		log.SetOutput(io.Discard) // GraphSaver logs every save
		f, err := os.CreateTemp(dir, "c12-autosave-*.json")
		if err != nil {
			panic(err)
		}
		f.Close()
		autosaveFile = f.Name()
	}
	return autosaveFile
}

// freshApp is the application a saved file is loaded into.
func freshApp() (*generator.App, *graph.Instance) {
	app := &generator.App{Name: "verif", Version: "1", Description: "c12"}
	return app, generator.VerifInstance(app)
}

// setMeta / delMeta apply an edit to the instance and to the reference model.
func (w *world) setMeta(key string, value any) {
	w.inst.SetMetadata(key, value)
	for k := range w.meta {
		if k == key || strings.HasPrefix(k, key+".") {
			delete(w.meta, k)
		}
	}
	flatten(key, value, w.meta)
}

func (w *world) delMeta(key string) bool {
	if g := core.Guard(func() { w.inst.DeleteMetadata(key) }); g.Panicked {
		return false
	}
	for k := range w.meta {
		if k == key || strings.HasPrefix(k, key+".") {
			delete(w.meta, k)
		}
	}
	return true
}

func flatten(prefix string, v any, out map[string]string) {
	if m, ok := v.(map[string]any); ok {
		for k, x := range m {
			flatten(prefix+"."+k, x, out)
		}
		return
	}
	b, _ := json.Marshal(v)
	out[prefix] = string(b)
}

func flatString(m map[string]string) string {
	keys := make([]string, 0, len(m))
	for k := range m {
		keys = append(keys, k)
	}
	sort.Strings(keys)
	var sb strings.Builder
	for _, k := range keys {
		sb.WriteString(k + "=" + m[k] + ";")
	}
	return sb.String()
}

// metaLeaves flattens the metadata block of a saved file (empty maps left behind by deletions carry no leaf).
func metaLeaves(file []byte) string {
	var doc struct {
		Data struct {
			Metadata map[string]any `json:"metadata"`
		} `json:"data"`
	}
	if json.Unmarshal(file, &doc) != nil {
		return "<unparsable>"
	}
	out := map[string]string{}
	for k, v := range doc.Data.Metadata {
		flatten(k, v, out)
	}
	return flatString(out)
}

func (w *world) nth(kind string, k int) string {
	c := 0
	for _, id := range w.ids {
		if w.kinds[id] == kind {
			if c == k {
				return id
			}
			c++
		}
	}
	return ""
}

func (w *world) create(kind string) string {
	_, id, err := w.inst.CreateNode(*typeOf[kind])
	if err != nil {
		panic(err)
	}
	// non-zero defaults (public fields, persisted with the graph): a zero *current* value must survive
	// the round trip as a value, not fall back to the default
	switch n := w.inst.Node(id).(type) {
	case *parameter.String:
		n.DefaultValue = "dflt"
	case *parameter.Float64:
		n.DefaultValue = 2.5
	case *parameter.Bool:
		n.DefaultValue = true
	case *parameter.File:
		n.DefaultValue = []byte("DEFAULT-PAYLOAD") // as a graph declared in code would
	}
	w.ids = append(w.ids, id)
	w.kinds[id] = kind
	return id
}

func (w *world) dependedOn(id string) bool {
	for _, other := range w.ids {
		for _, d := range w.inst.Node(other).Dependencies() {
			if w.inst.NodeId(d.Dependency()) == id {
				return true
			}
		}
	}
	return false
}

var setValues = map[string][]string{
	"str":  {`"x\"y\\z"`, `""`},
	"num":  {`1.5`, `0`},
	"bool": {`true`, `false`},
	"file": {"\x00\x01binary\xff", "second"},
}

// apply executes one editing operation and then the autosave every mutating endpoint performs.
func (w *world) apply(o Op) bool {
	if !w.applyEdit(o) {
		return false
	}
	w.saver.Save()
	return true
}

// applyEdit executes one editing operation through the public API; false = not enabled in this state.
func (w *world) applyEdit(o Op) bool {
	switch o.Kind {
	case "create":
		n := 0
		for _, id := range w.ids {
			if w.kinds[id] == o.T {
				n++
			}
		}
		limit := 2
		if o.T == "concat" || o.T == "pair" || o.T == "text" {
			limit = 1
			if o.T == "text" {
				limit = 2
			}
		}
		if n >= limit && len(w.ids) < 40 {
			return false
		}
		w.create(o.T)
	case "set":
		id := w.nth(o.T, o.A)
		if id == "" {
			return false
		}
		if _, err := w.inst.UpdateParameter(id, []byte(o.S)); err != nil {
			panic(err)
		}
	case "setnamed": // a value of the parameter catalogue, by name
		id := w.nth(o.T, o.A)
		msg, ok := catalogueMessage(o.T, o.S)
		if id == "" || !ok {
			return false
		}
		if _, err := w.inst.UpdateParameter(id, msg); err != nil {
			return false // the parameter rejects this wire form: not an operation of this history
		}
	case "name":
		id := w.nth(o.T, o.A)
		if id == "" {
			return false
		}
		w.inst.Parameter(id).SetName(o.S)
		w.inst.Parameter(id).SetDescription("about " + o.S)
	case "arr":
		p, c := w.nth("str", o.A), w.nth("concat", 0)
		if p == "" || c == "" || w.arrN >= 19 {
			return false
		}
		w.inst.ConnectNodes(p, "Out", c, fmt.Sprintf("Values.%d", w.arrN))
		w.arrN++
	case "arrdel":
		c := w.nth("concat", 0)
		if c == "" || o.A >= w.arrN {
			return false
		}
		w.inst.DeleteNodeInputConnection(c, fmt.Sprintf("Values.%d", o.A))
		w.arrN--
	case "wire":
		src := w.nth(o.T, o.A)
		parts := strings.SplitN(o.S, ".", 2) // "pair.Left"
		dst := w.nth(parts[0], 0)
		if src == "" || dst == "" {
			return false
		}
		w.inst.ConnectNodes(src, "Out", dst, parts[1])
	case "unwire":
		parts := strings.SplitN(o.S, ".", 2)
		dst := w.nth(parts[0], 0)
		if dst == "" {
			return false
		}
		has := false
		for _, d := range w.inst.Node(dst).Dependencies() {
			if d.Name() == parts[1] {
				has = true
			}
		}
		if !has {
			return false
		}
		w.inst.DeleteNodeInputConnection(dst, parts[1])
	case "producer":
		t := w.nth("text", o.A)
		if t == "" {
			return false
		}
		w.inst.SetNodeAsProducer(t, o.S)
	case "meta":
		if len(w.ids) == 0 {
			return false
		}
		switch o.S {
		case "position":
			w.setMeta("nodes."+w.ids[0]+".position", map[string]any{"x": 1.0, "y": 2.5})
		case "note":
			w.setMeta("notes.n1", map[string]any{"text": "a \"quoted\" note", "width": 10.0})
		case "deep":
			w.setMeta("nodes."+w.ids[len(w.ids)-1]+".ui.collapsed", true)
		case "arrays":
			// arrays, empty ones included, at two depths
			w.setMeta("nodes."+w.ids[0]+".tags", []any{})
			w.setMeta("notes.n2", map[string]any{"replies": []any{}, "grid": []any{[]any{}, []any{1.0, 2.0}}, "labels": []any{"a", "b"}})
		}
	case "metadel":
		if len(w.ids) == 0 {
			return false
		}
		key := map[string]string{"position": "nodes." + w.ids[0] + ".position", "note": "notes.n1", "deep": "nodes." + w.ids[len(w.ids)-1] + ".ui.collapsed", "arrays": "notes.n2"}[o.S]
		if !w.delMeta(key) {
			return false // deleting a key that does not exist is not an edit
		}
	case "delete":
		id := ""
		for _, x := range w.ids {
			if w.kinds[x] == o.T {
				id = x
			}
		}
		if id == "" || w.dependedOn(id) {
			return false
		}
		w.inst.DeleteNode(id)
		var nw []string
		for _, x := range w.ids {
			if x != id {
				nw = append(nw, x)
			}
		}
		w.ids = nw
		if o.T == "concat" {
			w.arrN = 0
		}
	default:
		panic("unknown op " + o.Kind)
	}
	return true
}

func alphabet() []Op {
	a := []Op{
		{Kind: "create", T: "str"}, {Kind: "create", T: "concat"}, {Kind: "create", T: "text"}, {Kind: "create", T: "pair"},
		{Kind: "create", T: "num"}, {Kind: "create", T: "bool"}, {Kind: "create", T: "file"},
		{Kind: "arr", A: 0}, {Kind: "arr", A: 1}, {Kind: "arrdel", A: 0}, {Kind: "arrdel", A: 1},
		{Kind: "wire", T: "str", A: 1, S: "concat.Tail"}, {Kind: "unwire", S: "concat.Tail"},
		{Kind: "wire", T: "concat", A: 0, S: "text.In"}, {Kind: "wire", T: "pair", A: 0, S: "text.In"},
		{Kind: "wire", T: "str", A: 0, S: "pair.Left"}, {Kind: "wire", T: "num", A: 0, S: "pair.Right"},
		{Kind: "wire", T: "bool", A: 0, S: "pair.Flag"}, {Kind: "wire", T: "file", A: 0, S: "pair.Blob"},
		{Kind: "producer", A: 0, S: "out.txt"}, {Kind: "producer", A: 1, S: "second file.txt"}, {Kind: "producer", A: 1, S: "out.txt"},
		{Kind: "meta", S: "position"}, {Kind: "meta", S: "note"}, {Kind: "meta", S: "deep"}, {Kind: "meta", S: "arrays"},
		{Kind: "metadel", S: "position"}, {Kind: "metadel", S: "note"}, {Kind: "metadel", S: "deep"}, {Kind: "metadel", S: "arrays"},
		{Kind: "delete", T: "str"}, {Kind: "delete", T: "text"}, {Kind: "delete", T: "concat"},
		{Kind: "name", T: "str", A: 0, S: "the \"name\""}, {Kind: "name", T: "file", A: 0, S: "upload"}, {Kind: "name", T: "num", A: 0, S: "amount"},
	}
	for _, t := range []string{"str", "num", "bool", "file"} {
		for _, v := range setValues[t] {
			a = append(a, Op{Kind: "set", T: t, A: 0, S: v})
		}
	}
	a = append(a, Op{Kind: "set", T: "str", A: 1, S: `"other"`}, Op{Kind: "set", T: "file", A: 1, S: "third \x01 blob"})
	return a
}

// ---- seeds (non-initial states) ----

var seedNames = []string{"empty", "concat-0", "concat-1", "concat-2", "concat-9", "concat-10", "concat-11", "concat-12", "concat-2z", "concat-12z", "concat-13z", "concat-17z", "diamond", "two-files"}

func buildSeed(name string) *world {
	w := newWorld()
	switch {
	case name == "empty":
	case strings.HasPrefix(name, "concat-"):
		zed := strings.HasSuffix(name, "z") // also connect the two ordinary inputs (names sorting before and after "Values")
		k, _ := strconv.Atoi(strings.TrimSuffix(strings.TrimPrefix(name, "concat-"), "z"))
		c := w.create("concat")
		if zed {
			pt, pz := w.create("str"), w.create("str")
			w.inst.UpdateParameter(pt, []byte(`"tail"`))
			w.inst.UpdateParameter(pz, []byte(`"zed"`))
			w.inst.ConnectNodes(pz, "Out", c, "Zed")
			w.inst.ConnectNodes(pt, "Out", c, "Tail")
		}
		for i := 0; i < k; i++ {
			p := w.create("str")
			w.inst.UpdateParameter(p, []byte(fmt.Sprintf("%q", fmt.Sprintf("p%d", i))))
			w.inst.ConnectNodes(p, "Out", c, fmt.Sprintf("Values.%d", i))
			w.arrN++
		}
		t := w.create("text")
		w.inst.ConnectNodes(c, "Out", t, "In")
		w.inst.SetNodeAsProducer(t, "out.txt")
	case name == "diamond":
		s, n, b, f := w.create("str"), w.create("num"), w.create("bool"), w.create("file")
		w.inst.UpdateParameter(f, []byte("blob\x00data"))
		w.inst.Parameter(s).SetName("title")
		w.inst.Parameter(s).SetDescription("the title")
		p := w.create("pair")
		w.inst.ConnectNodes(s, "Out", p, "Left")
		w.inst.ConnectNodes(n, "Out", p, "Right")
		w.inst.ConnectNodes(b, "Out", p, "Flag")
		w.inst.ConnectNodes(f, "Out", p, "Blob")
		c := w.create("concat")
		w.inst.ConnectNodes(s, "Out", c, "Values.0")
		w.inst.ConnectNodes(p, "Out", c, "Values.1")
		w.arrN = 2
		t1, t2 := w.create("text"), w.create("text")
		w.inst.ConnectNodes(p, "Out", t1, "In")
		w.inst.ConnectNodes(c, "Out", t2, "In")
		w.inst.SetNodeAsProducer(t1, "pair.txt")
		w.inst.SetNodeAsProducer(t2, "concat.txt")
		w.setMeta("nodes."+p+".position", map[string]any{"x": 3.0, "y": 4.0})
		w.setMeta("nodes."+c+".position", map[string]any{"x": 30.0, "y": 40.0})
		w.setMeta("notes.n0", map[string]any{"text": "hello"})
	case name == "two-files":
		// two binary parameters: their payloads live in the file's shared buffer
		f1, f2, s := w.create("file"), w.create("file"), w.create("str")
		w.inst.UpdateParameter(f1, []byte("first\x00payload"))
		w.inst.UpdateParameter(f2, []byte("second payload, longer"))
		p := w.create("pair")
		w.inst.ConnectNodes(f2, "Out", p, "Blob")
		w.inst.ConnectNodes(s, "Out", p, "Left")
		t := w.create("text")
		w.inst.ConnectNodes(p, "Out", t, "In")
		w.inst.SetNodeAsProducer(t, "pair.txt")
		_ = f1
	default:
		panic("unknown seed " + name)
	}
	return w
}

// ---- observation through public accessors ----

type depView struct {
	name string
	base string
	idx  int
	from string
	port string
}

// describe renders nodes, wiring (array inputs in slot order), parameter state, producers and artifacts.
func describe(inst *graph.Instance, ids []string) (string, map[string]string) {
	var lines []string
	for _, id := range ids {
		var n nodes.Node
		if g := core.Guard(func() { n = inst.Node(id) }); g.Panicked {
			lines = append(lines, id+": MISSING")
			continue
		}
		l := id + ":" + refutil.GetTypeWithPackage(n)
		var deps []depView
		for _, d := range n.Dependencies() {
			v := depView{name: d.Name(), base: d.Name(), idx: -1, from: inst.NodeId(d.Dependency()), port: d.DependencyPort()}
			if i := strings.LastIndex(v.name, "."); i > 0 {
				if k, err := strconv.Atoi(v.name[i+1:]); err == nil {
					v.base, v.idx = v.name[:i], k
				}
			}
			deps = append(deps, v)
		}
		sort.Slice(deps, func(a, b int) bool {
			if deps[a].base != deps[b].base {
				return deps[a].base < deps[b].base
			}
			return deps[a].idx < deps[b].idx
		})
		for _, d := range deps {
			l += fmt.Sprintf(" %s<-%s.%s", d.name, d.from, d.port)
		}
		if p, ok := n.(graph.Parameter); ok {
			l += fmt.Sprintf(" value=%q name=%q", p.ToMessage(), p.DisplayName())
			switch pv := n.(type) {
			case *parameter.Value[string]:
				l += fmt.Sprintf(" description=%q", pv.Description)
			case *parameter.Value[float64]:
				l += fmt.Sprintf(" description=%q", pv.Description)
			case *parameter.Value[bool]:
				l += fmt.Sprintf(" description=%q", pv.Description)
			case *parameter.File:
				l += fmt.Sprintf(" description=%q", pv.Description)
			}
		}
		lines = append(lines, l)
	}
	arts := map[string]string{}
	names := inst.ProducerNames()
	sort.Strings(names)
	for _, pn := range names {
		lines = append(lines, fmt.Sprintf("producer %q=%s.%s", pn, inst.NodeId(inst.Producer(pn).Node()), inst.Producer(pn).Port()))
		b := &bytes.Buffer{}
		g := core.Guard(func() { inst.Artifact(pn).Write(b) })
		if g.Panicked {
			arts[pn] = "<artifact generation failed>"
		} else {
			arts[pn] = b.String()
		}
	}
	return strings.Join(lines, "\n"), arts
}

type Case struct {
	Seed string             `json:"seed"`
	Ops  []Op               `json:"ops"`
	Devs []mapord.Deviation `json:"map_order_deviations,omitempty"`
}

func (cs Case) String() string {
	var parts []string
	for _, o := range cs.Ops {
		parts = append(parts, o.String())
	}
	s := "seed=" + cs.Seed + ": " + strings.Join(parts, "; ")
	if len(cs.Devs) > 0 {
		s += fmt.Sprintf(" [map iteration %v]", cs.Devs)
	}
	return s
}

type problem struct{ site, clause, class, detail string }

type result struct {
	enabled  bool
	probs    []problem
	iters    []mapord.Iter
	file     []byte
	overflow bool
}

func firstDiff(a, b string) string {
	al, bl := strings.Split(a, "\n"), strings.Split(b, "\n")
	for i := 0; i < len(al) || i < len(bl); i++ {
		x, y := "", ""
		if i < len(al) {
			x = al[i]
		}
		if i < len(bl) {
			y = bl[i]
		}
		if x != y {
			return fmt.Sprintf("before save: %s | after reload: %s", x, y)
		}
	}
	return ""
}

func arrayClass(w *world) string {
	if w.arrN >= 10 {
		return "array-inputs>=10"
	}
	return "array-inputs<10"
}

// roundTrip executes history + save/load/save. The edit phase runs with map order pinned to the
// default; deviations apply to the save/load/save pipeline, whose iterations are logged.
func roundTrip(cs Case) (r result) {
	mapord.Begin(nil)
	var w *world
	var d1 string
	var a1 map[string]string
	enabled := true
	g0 := core.Guard(func() {
		w = buildSeed(cs.Seed)
		for _, o := range cs.Ops {
			if !w.apply(o) {
				enabled = false
				return
			}
		}
		d1, a1 = describe(w.inst, w.ids)
	})
	mapord.End()
	if !enabled {
		return
	}
	r.enabled = true
	if g0.Panicked {
		// an editing operation (or its autosave) crashed on a state reached through the public API
		r.probs = append(r.probs, problem{"graph.Instance/" + core.TopFrame(g0.Stack), "editing, saving and loading the graph succeeds", "panic-while-editing", g0.Msg})
		return
	}

	var s1, s2, autosaved []byte
	var inst2 *graph.Instance
	var app2 *generator.App
	var loadErr error
	mapord.Begin(cs.Devs)
	g := core.Guard(func() {
		if len(cs.Ops) > 0 {
			// the file the autosaver left behind after the last edit is "the saved graph"
			autosaved, _ = os.ReadFile(autosavePath())
		}
		s1 = save(w.app)
		file := s1
		if autosaved != nil {
			file = autosaved
		}
		app2, inst2 = freshApp()
		loadErr = app2.ApplySchema(file)
		if loadErr == nil {
			s2 = save(app2)
		}
	})
	r.iters, r.overflow = mapord.End()
	r.file = s1
	class := arrayClass(w)
	add := func(site, clause, cl, detail string) {
		r.probs = append(r.probs, problem{site, clause, cl + "/" + class, detail})
	}
	switch {
	case g.Panicked:
		add("graph.Instance.EncodeToAppSchema/ApplyAppSchema", "saving and loading the graph succeeds", "panic", g.Msg+" "+core.TopFrame(g.Stack))
		return
	case loadErr != nil:
		add("graph.Instance.ApplyAppSchema", "saving and loading the graph succeeds", "load-error", loadErr.Error())
		return
	}
	if autosaved != nil && !bytes.Equal(autosaved, s1) {
		add("generator.GraphSaver.Save", "the file written by the autosave after the last edit is the saved graph", "autosaved-file-stale-or-different", byteDiff(autosaved, s1))
	}
	mapord.Begin(nil)
	d2, a2 := describe(inst2, w.ids)
	runOn := payloadRunsOn(w, inst2)
	mapord.End()
	if runOn != "" {
		// one root cause (the payload of a binary parameter is read to the end of the shared buffer);
		// its consequences (artifacts, bytes) are not reported separately
		r.probs = append(r.probs, problem{"jbtf.Bytes.Deserialize via parameter.File.FromJSON", "loading the saved file yields the same parameter values", "binary-parameter-payload-runs-into-the-next-buffer-view", runOn})
		return
	}
	if d1 != d2 {
		cl := "graph-differs"
		diff := firstDiff(d1, d2)
		cl = classifyDiff(diff)
		add("graph.Instance.ApplyAppSchema", "loading the saved file yields the same nodes, wiring (including array order), parameter values, names, descriptions and producers", cl, diff)
	}
	for pn, want := range a1 {
		if got := a2[pn]; got != want {
			add("graph.Instance.ApplyAppSchema", "deterministic producers generate artifacts with identical content after reload", "artifact-differs", fmt.Sprintf("producer %q: %q before save, %q after reload", pn, want, got))
			break
		}
	}
	if want, got := flatString(w.meta), metaLeaves(s2); want != got {
		cl := "metadata-lost-on-load"
		if metaLeaves(s1) != want {
			cl = "metadata-lost-on-save"
		}
		add("graph.Instance.EncodeToAppSchema/ApplyAppSchema", "saving and loading yields the same metadata", cl, fmt.Sprintf("metadata set through the API: %s — metadata of the reloaded graph: %s", want, got))
	}
	if !bytes.Equal(s1, s2) {
		add("graph.Instance.EncodeToAppSchema", "saving the reloaded graph reproduces the file byte for byte", "bytes-differ", byteDiff(s1, s2))
	}
	return
}

// classifyDiff names what differs in the first differing description line.
func classifyDiff(diff string) string {
	parts := strings.SplitN(diff, " | after reload: ", 2)
	if len(parts) != 2 {
		return "graph-differs"
	}
	a, b := strings.TrimPrefix(parts[0], "before save: "), parts[1]
	field := func(s, key string) string {
		i := strings.Index(s, key)
		if i < 0 {
			return ""
		}
		rest := s[i+len(key):]
		if j := strings.Index(rest, "\" "); j >= 0 {
			return rest[:j]
		}
		return rest
	}
	switch {
	case strings.HasPrefix(a, "producer") || strings.HasPrefix(b, "producer"):
		return "producers"
	case field(a, " value=") != field(b, " value="):
		return "parameter-value"
	case field(a, " name=") != field(b, " name="):
		return "parameter-name"
	case field(a, " description=") != field(b, " description="):
		return "parameter-description"
	case strings.Contains(a, "Values.") || strings.Contains(b, "Values."):
		return "array-input-order"
	case strings.Contains(a, "MISSING") || strings.Contains(b, "MISSING"):
		return "node-missing"
	}
	return "wiring"
}

// payloadRunsOn detects the signature of one specific root cause: after reload a file parameter's
// value is its original value followed by more bytes (the decoder read past its buffer view).
func payloadRunsOn(w *world, inst2 *graph.Instance) string {
	for _, id := range w.ids {
		if w.kinds[id] != "file" {
			continue
		}
		var before, after []byte
		g := core.Guard(func() {
			before = w.inst.Parameter(id).ToMessage()
			after = inst2.Parameter(id).ToMessage()
		})
		if g.Panicked || len(before) == 0 {
			continue
		}
		if len(after) > len(before) && bytes.HasPrefix(after, before) {
			return fmt.Sprintf("file parameter %s holds %q before saving and %q after reload (its payload followed by the payloads stored after it in the buffer)", id, before, after)
		}
	}
	return ""
}

func byteDiff(a, b []byte) string {
	i := 0
	for i < len(a) && i < len(b) && a[i] == b[i] {
		i++
	}
	lo := i - 60
	if lo < 0 {
		lo = 0
	}
	ha, hb := i+80, i+80
	if ha > len(a) {
		ha = len(a)
	}
	if hb > len(b) {
		hb = len(b)
	}
	return fmt.Sprintf("first difference at byte %d: …%s… vs …%s…", i, a[lo:ha], b[lo:hb])
}

// ---- exploration ----

type explorer struct {
	c        *core.Ctx
	alpha    []Op
	devDepth int
	scope    string // when set: the evidence scope of every visit (instead of seed/depth)
}

func (e *explorer) report(cs Case, ps []problem) {
	for _, p := range ps {
		class := p.class
		if len(cs.Devs) > 0 {
			class += "/under-map-order-deviation"
		}
		e.c.Violate(core.Violation{Site: p.site, Clause: p.clause, Class: class, Detail: cs.String() + " — " + p.detail, Case: cs})
	}
}

func (e *explorer) visit(cs Case, owned bool) bool {
	r := roundTrip(cs)
	if !r.enabled {
		return false
	}
	if !owned {
		return true
	}
	e.c.Trace()
	e.c.Transition()
	scope := fmt.Sprintf("%s/depth%d", cs.Seed, len(cs.Ops))
	if e.scope != "" {
		scope = e.scope
	}
	outcome := "ok"
	if len(r.probs) > 0 {
		outcome = "violation"
		e.report(cs, r.probs)
	}
	e.c.Eval(scope, outcome)
	e.c.NontrivialHash(core.Hash(cs.Seed, fmt.Sprint(cs.Ops)))
	e.c.Sample(scope, cs.String())
	if r.overflow {
		e.c.Cap("map iteration log overflow")
	}
	if len(r.probs) == 0 && len(cs.Ops) <= e.devDepth {
		// every single deviation of map iteration order inside save/load/save: the file must not
		// depend on it (save is deterministic) and the round trip must still hold
		for k, it := range r.iters {
			for _, seed := range it.Alternatives() {
				dc := Case{Seed: cs.Seed, Ops: cs.Ops, Devs: []mapord.Deviation{{At: k, Seed: seed}}}
				rd := roundTrip(dc)
				e.c.Trace()
				e.c.Transition()
				o := "ok"
				ps := rd.probs
				if len(ps) == 0 && !bytes.Equal(rd.file, r.file) {
					ps = append(ps, problem{"graph.Instance.EncodeToAppSchema", "saving the same graph always produces the same bytes", "save-depends-on-map-order/" + "any", byteDiff(r.file, rd.file)})
				}
				if len(ps) > 0 {
					o = "violation"
					e.report(dc, ps)
				}
				e.c.Eval(scope+"/deviations=1", o)
			}
		}
	}
	return len(r.probs) == 0
}

func (e *explorer) dfs(cs Case, depth int) {
	if e.c.Expired() || len(cs.Ops) == depth {
		return
	}
	for _, o := range e.alpha {
		mine := true
		if len(cs.Ops) == 0 {
			mine = e.c.Next()
		}
		if !mine {
			continue
		}
		next := Case{Seed: cs.Seed, Ops: append(append([]Op{}, cs.Ops...), o)}
		if !e.visit(next, true) {
			continue
		}
		e.c.State()
		e.dfs(next, depth)
	}
}

func run(c *core.Ctx) {
	alpha := alphabet()
	depth, devDepth := 3, 1
	if c.Thorough() {
		depth, devDepth = 4, 2
	}
	if v, ok := c.Args["depth"]; ok {
		depth, _ = strconv.Atoi(v)
	}
	c.Bound("alphabet", len(alpha))
	c.Bound("history_depth", depth)
	c.Bound("map_order_single_deviations_up_to_depth", devDepth)
	c.Bound("seeds", seedNames)
	for _, seed := range seedNames {
		e := &explorer{c: c, alpha: alpha, devDepth: devDepth}
		if c.Shard == 0 {
			e.visit(Case{Seed: seed}, true) // the seed itself
		}
		e.dfs(Case{Seed: seed}, depth)
	}
	runCatalogue(&explorer{c: c, alpha: alpha, devDepth: 0})
	exampleGraphs(c)
}

func replay(c *core.Ctx) {
	var cs Case
	if err := json.Unmarshal(c.Replay, &cs); err != nil {
		c.HarnessError("bad case: %v", err)
		return
	}
	if strings.HasPrefix(cs.Seed, "file:") {
		replayFile(c, cs)
		return
	}
	r := roundTrip(cs)
	if !r.enabled {
		c.HarnessError("replay: history not executable to the end")
		return
	}
	ps := r.probs
	if len(cs.Devs) > 0 && len(ps) == 0 {
		base := roundTrip(Case{Seed: cs.Seed, Ops: cs.Ops})
		if !bytes.Equal(base.file, r.file) {
			ps = append(ps, problem{"graph.Instance.EncodeToAppSchema", "saving the same graph always produces the same bytes", "save-depends-on-map-order/any", byteDiff(base.file, r.file)})
		}
	}
	(&explorer{c: c}).report(cs, ps)
	c.Eval("replay", "done")
}
