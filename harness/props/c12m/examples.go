package c12m

import (
	"bytes"
	"fmt"
	"os"
	"path/filepath"
	"sort"

	"github.com/EliCDavis/polyform/generator"

	// the full registered node type set, exactly as cmd/polyform imports it
	_ "github.com/EliCDavis/polyform/formats/colmap"
	_ "github.com/EliCDavis/polyform/formats/gltf"
	_ "github.com/EliCDavis/polyform/formats/opensfm"
	_ "github.com/EliCDavis/polyform/formats/ply"
	_ "github.com/EliCDavis/polyform/formats/splat"
	_ "github.com/EliCDavis/polyform/formats/spz"
	_ "github.com/EliCDavis/polyform/formats/stl"
	_ "github.com/EliCDavis/polyform/generator/artifact/basics"
	_ "github.com/EliCDavis/polyform/generator/parameter"
	_ "github.com/EliCDavis/polyform/math"
	_ "github.com/EliCDavis/polyform/math/vector"
	_ "github.com/EliCDavis/polyform/modeling/extrude"
	_ "github.com/EliCDavis/polyform/modeling/meshops"
	_ "github.com/EliCDavis/polyform/modeling/meshops/gausops"
	_ "github.com/EliCDavis/polyform/modeling/primitives"
	_ "github.com/EliCDavis/polyform/modeling/repeat"
	_ "github.com/EliCDavis/polyform/nodes/experimental"

	"verif/harness/core"
	"verif/harness/mapord"
)

func repoRoot() string {
	if r := os.Getenv("VERIF_REPO"); r != "" {
		return r
	}
	return "/repo"
}

func exampleFiles() []string {
	files, _ := filepath.Glob(filepath.Join(repoRoot(), "examples", "graphs", "*.json"))
	sort.Strings(files)
	return files
}

// appRoundTrip loads a shipped graph file through generator.App (the code path the CLI and the editor
// use), saves it, loads the result into a fresh App and saves again.
func appRoundTrip(file []byte, devs []mapord.Deviation) (s1, s2 []byte, iters []mapord.Iter, err string) {
	mapord.Begin(devs)
	g := core.Guard(func() {
		a := &generator.App{Name: "verif"}
		a.Schema() // builds the (empty) graph instance
		if e := a.ApplySchema(file); e != nil {
			err = "load of the shipped file failed: " + e.Error()
			return
		}
		s1 = a.Schema()
		b := &generator.App{Name: "verif"}
		b.Schema()
		if e := b.ApplySchema(s1); e != nil {
			err = "load of the saved file failed: " + e.Error()
			return
		}
		s2 = b.Schema()
	})
	iters, _ = mapord.End()
	if g.Panicked {
		err = "panic: " + g.Msg + " " + core.TopFrame(g.Stack)
	}
	return
}

func checkExample(c *core.Ctx, path string, devs []mapord.Deviation, base []byte) (s1 []byte, iters []mapord.Iter) {
	file, e := os.ReadFile(path)
	if e != nil {
		c.HarnessError("cannot read %s: %v", path, e)
		return
	}
	name := filepath.Base(path)
	cs := Case{Seed: "file:" + name, Devs: devs}
	s1, s2, iters, err := appRoundTrip(file, devs)
	class := "shipped-graph/" + name
	if len(devs) > 0 {
		class += "/under-map-order-deviation"
	}
	outcome := "ok"
	fail := func(site, clause, cl, detail string) {
		outcome = "violation"
		c.Violate(core.Violation{Site: site, Clause: clause, Class: cl + "/" + class, Detail: cs.String() + " — " + detail, Case: cs})
	}
	switch {
	case err != "":
		fail("generator.App.ApplySchema/Schema", "saving and loading the graph succeeds", "error", err)
	case !bytes.Equal(s1, s2):
		fail("graph.Instance.EncodeToAppSchema", "saving the reloaded graph reproduces the file byte for byte", "bytes-differ", byteDiff(s1, s2))
	case base != nil && !bytes.Equal(base, s1):
		fail("graph.Instance.EncodeToAppSchema", "saving the same graph always produces the same bytes", "save-depends-on-map-order", byteDiff(base, s1))
	}
	c.Trace()
	c.Transition()
	scope := "shipped-graphs"
	if len(devs) > 0 {
		scope += "/deviations=1"
	}
	c.Eval(scope, outcome)
	if len(devs) == 0 {
		c.Nontrivial("file", name)
		c.Sample(scope, fmt.Sprintf("%s (%d bytes, %d map iterations in load/save/load/save)", name, len(file), len(iters)))
	}
	return
}

// exampleGraphs: every graph file shipped with the repository, default order plus every single
// map-order deviation (sharded by iteration index).
func exampleGraphs(c *core.Ctx) {
	for _, path := range exampleFiles() {
		base, iters := checkExample(c, path, nil, nil)
		if base == nil {
			continue
		}
		n := 0
		limit := 400
		if c.Thorough() {
			limit = 1 << 30
		}
		for k, it := range iters {
			if it.Count < 2 {
				continue
			}
			for _, seed := range it.Alternatives() {
				n++
				if !c.Mine(n) {
					continue
				}
				if n > limit {
					continue
				}
				if c.Expired() {
					return
				}
				checkExample(c, path, []mapord.Deviation{{At: k, Seed: seed}}, base)
			}
		}
		if n > limit {
			c.Bound("shipped_graph_deviations_explored", fmt.Sprintf("first %d of %d (quick tier)", limit, n))
		} else {
			c.Bound("shipped_graph_deviations_explored", n)
		}
	}
}

func replayFile(c *core.Ctx, cs Case) {
	path := filepath.Join(repoRoot(), "examples", "graphs", cs.Seed[len("file:"):])
	var base []byte
	if len(cs.Devs) > 0 {
		file, _ := os.ReadFile(path)
		base, _, _, _ = appRoundTrip(file, nil)
	}
	checkExample(c, path, cs.Devs, base)
}
