package c12m

// The parameter catalogue: every parameter type the library registers, set to every value of a
// small menu (including values whose wire form is not the library's own canonical encoding of the
// same value — a png written by another encoder, numbers written with exponents and superfluous
// digits), alone and as a second update, then the usual save / load / save oracle.

import (
	"bytes"
	"encoding/binary"
	"encoding/json"
	"fmt"
	"hash/crc32"
	"image"
	"image/color"
	"image/jpeg"
	"image/png"

	"github.com/EliCDavis/polyform/generator/parameter"
	"github.com/EliCDavis/polyform/math/geometry"
	"github.com/EliCDavis/polyform/refutil"
	"github.com/EliCDavis/vector/vector2"
	"github.com/EliCDavis/vector/vector3"
)

var (
	tImage  = refutil.GetTypeWithPackage(new(parameter.Image))
	tInt    = refutil.GetTypeWithPackage(new(parameter.Int))
	tVec2   = refutil.GetTypeWithPackage(new(parameter.Vector2))
	tVec3   = refutil.GetTypeWithPackage(new(parameter.Vector3))
	tVec3s  = refutil.GetTypeWithPackage(new(parameter.Vector3Array))
	tAABB   = refutil.GetTypeWithPackage(new(parameter.AABB))
	tColour = refutil.GetTypeWithPackage(new(parameter.Color))
)

func init() {
	for k, v := range map[string]*string{"image": &tImage, "int": &tInt, "vec2": &tVec2, "vec3": &tVec3, "vec3s": &tVec3s, "aabb": &tAABB, "colour": &tColour} {
		typeOf[k] = v
	}
}

func mustJSON(v any) []byte {
	b, err := json.Marshal(v)
	if err != nil {
		panic(err)
	}
	return b
}

func testImage(w, h int) *image.NRGBA {
	img := image.NewNRGBA(image.Rect(0, 0, w, h))
	for y := 0; y < h; y++ {
		for x := 0; x < w; x++ {
			img.SetNRGBA(x, y, color.NRGBA{uint8(40*x + 10), uint8(60*y + 5), uint8(17 * (x + y)), uint8(255 - 30*((x+y)%3))})
		}
	}
	return img
}

func encodePng(img image.Image, level png.CompressionLevel) []byte {
	var b bytes.Buffer
	if err := (&png.Encoder{CompressionLevel: level}).Encode(&b, img); err != nil {
		panic(err)
	}
	return b.Bytes()
}

// withTextChunk inserts an ancillary tEXt chunk after IHDR, as image editors do.
func withTextChunk(p []byte) []byte {
	const ihdrEnd = 8 + 4 + 4 + 13 + 4
	data := []byte("Software\x00some other tool")
	var chunk bytes.Buffer
	binary.Write(&chunk, binary.BigEndian, uint32(len(data)))
	body := append([]byte("tEXt"), data...)
	chunk.Write(body)
	binary.Write(&chunk, binary.BigEndian, crc32.ChecksumIEEE(body))
	out := append([]byte{}, p[:ihdrEnd]...)
	out = append(out, chunk.Bytes()...)
	return append(out, p[ihdrEnd:]...)
}

// catalogue lists, per parameter kind, named messages (the names go into the replayable case).
var catalogue = func() map[string][][2]string {
	img := testImage(3, 2)
	opaque := image.NewRGBA(image.Rect(0, 0, 2, 2))
	for i := range opaque.Pix {
		opaque.Pix[i] = uint8(255 - 13*(i%4)*(i/4))
		if i%4 == 3 {
			opaque.Pix[i] = 255
		}
	}
	gray := image.NewGray16(image.Rect(0, 0, 2, 1))
	gray.SetGray16(0, 0, color.Gray16{0x1234})
	gray.SetGray16(1, 0, color.Gray16{0xfedc})
	pal := image.NewPaletted(image.Rect(0, 0, 2, 2), color.Palette{color.NRGBA{255, 0, 0, 255}, color.NRGBA{0, 0, 255, 255}})
	pal.SetColorIndex(1, 0, 1)
	var jp bytes.Buffer
	if err := jpeg.Encode(&jp, testImage(8, 8), &jpeg.Options{Quality: 90}); err != nil {
		panic(err)
	}
	return map[string][][2]string{
		"image": {
			{"png/library-default-encoder", string(encodePng(img, png.DefaultCompression))},
			{"png/stored-uncompressed", string(encodePng(img, png.NoCompression))},
			{"png/best-compression+tEXt-chunk", string(withTextChunk(encodePng(img, png.BestCompression)))},
			{"png/opaque-rgba", string(encodePng(opaque, png.BestSpeed))},
			{"png/gray16", string(encodePng(gray, png.DefaultCompression))},
			{"png/paletted", string(encodePng(pal, png.DefaultCompression))},
			{"jpeg/8x8", jp.String()},
		},
		"int":   {{"7", "7"}, {"0", "0"}, {"-3", "-3"}, {"1e3", "1e3"}, {"spaced", " 12 "}},
		"num":   {{"1e-7", "1e-7"}, {"0.1000000000000000055", "0.1000000000000000055"}, {"-0", "-0"}, {"1E+21", "1E+21"}, {"5e-324", "5e-324"}},
		"str":   {{"escapes", `"éA\/\n<>&"`}, {"two-byte-and-astral", "\"é\U0001F600\""}, {"u2028", "\"a b\""}},
		"bool":  {{"spaced-true", " true"}},
		"vec2":  {{"1.5,-2", string(mustJSON(vector2.New(1.5, -2.)))}, {"zero", string(mustJSON(vector2.New(0., 0.)))}, {"tiny", string(mustJSON(vector2.New(1e-300, 1e21)))}},
		"vec3":  {{"1,2,3", string(mustJSON(vector3.New(1., 2., 3.)))}, {"zero", string(mustJSON(vector3.New(0., 0., 0.)))}, {"thirds", string(mustJSON(vector3.New(1./3, -2./3, 1e-9)))}},
		"vec3s": {{"two", string(mustJSON([]vector3.Float64{vector3.New(1., 2., 3.), vector3.New(-4., 5.5, 0.)}))}, {"empty", "[]"}, {"one", string(mustJSON([]vector3.Float64{vector3.New(0., 0., 0.)}))}},
		"aabb":  {{"unit", string(mustJSON(geometry.NewAABB(vector3.New(0., 0., 0.), vector3.New(1., 1., 1.))))}, {"offset", string(mustJSON(geometry.NewAABB(vector3.New(1., -2., 3.5), vector3.New(0.5, 4., 0.))))}},
		"colour": {{"#ff8000", `"#ff8000"`}, {"#FF8000-upper", `"#FF8000"`}, {"#10203040-alpha", `"#10203040"`}, {"#000000", `"#000000"`}},
	}
}()

var catalogueKinds = []string{"image", "int", "num", "str", "bool", "vec2", "vec3", "vec3s", "aabb", "colour"}

func catalogueMessage(kind, name string) ([]byte, bool) {
	for _, e := range catalogue[kind] {
		if e[0] == name {
			return []byte(e[1]), true
		}
	}
	return nil, false
}

// runCatalogue: create the parameter, apply one or two values of its menu (an update the parameter
// rejects is a disabled operation, not a verdict), then the round trip.
func runCatalogue(e *explorer) {
	n := 0
	for _, kind := range catalogueKinds {
		menu := catalogue[kind]
		create := Op{Kind: "create", T: kind}
		e.scope = "parameter-catalogue/" + kind
		for i := -1; i < len(menu); i++ {
			for j := -1; j < len(menu); j++ {
				if i < 0 && j >= 0 {
					continue
				}
				if !e.c.Next() {
					continue
				}
				ops := []Op{create}
				if i >= 0 {
					ops = append(ops, Op{Kind: "setnamed", T: kind, S: menu[i][0]})
				}
				if j >= 0 {
					ops = append(ops, Op{Kind: "setnamed", T: kind, S: menu[j][0]})
				}
				for _, seed := range []string{"empty", "two-files"} {
					if e.visit(Case{Seed: seed, Ops: ops}, true) {
						n++
					}
				}
			}
		}
	}
	e.c.Bound("parameter_catalogue", fmt.Sprintf("%d parameter kinds %v, every value and ordered pair of values of each kind's menu, on an empty graph and next to two binary parameters", len(catalogueKinds), catalogueKinds))
}
