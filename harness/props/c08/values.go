package c08

// SV: numbers.  The other scopes carry a handful of ordinary values, spelled the shortest way.  Other
// tools print full-precision doubles (repr, %.17g, %e), plain decimals, explicit signs and exponent
// forms, over the whole range of the type.  This scope sends a ladder of numbers — the float32 ladder
// (every binade, subnormals, both zeros, integer-width borders, decimal powers), powers of ten over
// the double range, and a fixed family of 1500 full-precision doubles spread over 40 decades —
// through every float and double vertex property in six spellings (ascii) and as raw bytes (both
// binary encodings), and demands exactly the number each token / byte pattern denotes.

import (
	"fmt"
	"math"

	"verif/harness/core"
	"verif/harness/props/plyref"
)

var f32Ladder, f64Ladder = func() ([]float64, []float64) {
	var a, b []float64
	for _, bits := range core.Float32Ladder() {
		v := float64(math.Float32frombits(bits))
		a = append(a, v)
		b = append(b, v)
	}
	for e := -300; e <= 300; e += 5 {
		p := math.Pow(10, float64(e))
		b = append(b, p, -3*p)
	}
	b = append(b, math.MaxFloat64, -math.MaxFloat64, math.SmallestNonzeroFloat64, 2.2250738585072014e-308, 9007199254740993, 0.1+0.2, 1-0x1p-53, 1+0x1p-52)
	// full-precision doubles: a Kronecker sequence in [1,10) scaled over 40 decades, both signs
	for k := 1; k <= 1500; k++ {
		m := 1 + 9*frac(float64(k)*0.6180339887498949)
		v := m * math.Pow(10, float64(k%41-20))
		if k%3 == 0 {
			v = -v
		}
		b = append(b, v)
	}
	return a, b
}()

func frac(x float64) float64 { return x - math.Floor(x) }

func ladderValue(typ string, r int) float64 {
	if typ == "float" {
		return f32Ladder[r%len(f32Ladder)]
	}
	return f64Ladder[r%len(f64Ladder)]
}

var numberProps = []VProp{{Name: "x", Type: "double"}, {Name: "y", Type: "double"}, {Name: "z", Type: "double"},
	{Name: "nx", Type: "float"}, {Name: "ny", Type: "float"}, {Name: "nz", Type: "float"},
	{Name: "intensity", Type: "double"}, {Name: "confidence", Type: "float"}}

var numberPropsF = []VProp{{Name: "x", Type: "float"}, {Name: "y", Type: "float"}, {Name: "z", Type: "float"},
	{Name: "scale_0", Type: "double"}, {Name: "scale_1", Type: "double"}, {Name: "scale_2", Type: "double"}, {Name: "my_scalar", Type: "double"}}

func (k checker) numbers(next func() bool) {
	n := len(f64Ladder)
	for r := 0; r < n; r++ {
		if !next() {
			continue
		}
		if k.c.Expired() {
			return
		}
		for pi, props := range [][]VProp{numberProps, numberPropsF} {
			for style := 0; style < plyref.NumStyles; style++ {
				k.eval(Case{Scope: "numbers/ascii/" + styleNames[style], Format: plyref.ASCII, VProps: props, NV: 3, Vals: r + 1, Style: style, CRLF: (r+style+pi)%5 == 0})
			}
			k.eval(Case{Scope: "numbers/binary", Format: plyref.LE, VProps: props, NV: 3, Vals: r + 1})
			k.eval(Case{Scope: "numbers/binary", Format: plyref.BE, VProps: props, NV: 3, Vals: r + 1})
		}
	}
	k.c.Bound("SV.numbers", fmt.Sprintf("%d doubles (float32 ladder, powers of ten 1e-300..1e300, range ends, 1500 full-precision doubles over 40 decades) / %d floats, each through every float and double property of two layouts (recognised groups and unknown scalars) in %d ascii spellings %v and both binary encodings", len(f64Ladder), len(f32Ladder), plyref.NumStyles, styleNames))
}

var styleNames = []string{"shortest", "17-digits", "scientific-17-digits", "plain-decimal", "explicit-plus", "upper-case-exponent"}
