// Package c08: PLY files written by other tools load to what the specification says
// (DESIGN §4 C08). An independent reference encoder (verif/harness/props/plyref, written from the
// format specification) produces files over every header layout of the stated grammar in
// ascii / little-endian / big-endian together with the mesh each file describes; the real reader
// must load exactly that mesh.
package c08

import (
	"encoding/json"
	"fmt"
	"math"
	"sort"
	"strings"

	"github.com/EliCDavis/polyform/modeling"

	"verif/harness/core"
	"verif/harness/meshlib"
	"verif/harness/props/plyio"
	"verif/harness/props/plyref"
)

func init() { core.Register(core.Check{ID: "C08", Run: run, Replay: replay}) }

// ---------------------------------------------------------------------------------------------
// case description (replayable): a complete file specification
// ---------------------------------------------------------------------------------------------

type VProp struct {
	Name  string `json:"n"`
	Type  string `json:"t"`
	Spell int    `json:"sp,omitempty"`
}

type FList struct {
	Name       string `json:"n"` // vertex_indices | vertex_index | texcoord | <unknown list>
	Count      string `json:"c"`
	Type       string `json:"t"`
	CountSpell int    `json:"csp,omitempty"`
	Spell      int    `json:"sp,omitempty"`
}

type Extra struct {
	After int    `json:"after"` // inserted after structural header line number After (1 = format line)
	Text  string `json:"text"`
}

type Case struct {
	Scope   string  `json:"scope"`
	Format  string  `json:"format"`
	CRLF    bool    `json:"crlf,omitempty"`
	Extras  []Extra `json:"extras,omitempty"`
	VProps  []VProp `json:"vprops"`
	NV      int     `json:"nv"`
	HasFace bool    `json:"hasface,omitempty"`
	FLists  []FList `json:"flists,omitempty"`
	Faces   [][]int `json:"faces,omitempty"`
	// Big: vertex 2 of int / double properties carries a number that single precision cannot hold
	Big bool `json:"big,omitempty"`
	// Ext: int properties carry the extremes -1, -2147483648, 2147483647 (rotated per property)
	Ext bool `json:"ext,omitempty"`
	// Files: also deliver through *os.File and ply.Load (temp file under /dev/shm)
	Files bool `json:"files,omitempty"`
	// Ladder/N describe a size-ladder file compactly (NV and Faces are derived, never stored):
	//   cloud  N vertex records, no face element
	//   faces  N faces over N+3 vertices: face f is the quad (f+3, f+1, f, f+2) when f%3 == 2,
	//          else the triangle (f+2, f, f+1)
	Ladder string `json:"ladder,omitempty"`
	N      int    `json:"n,omitempty"`
	// Vals > 0: float / double properties draw their values from the number ladder, starting at rung
	// Vals-1 (values.go); Style: spelling of ascii float/double tokens (plyref.TokenStyled)
	Vals  int `json:"vals,omitempty"`
	Style int `json:"style,omitempty"`
}

// resolved fills in the vertex count and the faces of a generated (size-ladder) file.
func (cs Case) resolved() Case {
	switch cs.Ladder {
	case "cloud":
		cs.NV = cs.N
	case "faces":
		cs.NV = cs.N + 3
		cs.HasFace = true
		cs.Faces = make([][]int, cs.N)
		for f := range cs.Faces {
			if f%3 == 2 {
				cs.Faces[f] = []int{f + 3, f + 1, f, f + 2}
			} else {
				cs.Faces[f] = []int{f + 2, f, f + 1}
			}
		}
	}
	return cs
}

// ---------------------------------------------------------------------------------------------
// values: vertex-unique per property, exact and inexact members, negatives
// ---------------------------------------------------------------------------------------------

func salt(name string) int {
	s := 0
	for _, c := range name {
		s += int(c)
	}
	return s % 11
}

var f32vals = []float64{0.1, -2.5, 3.25, 1.5e-3, 7, -0.5, 1.0 / 3}
var f64vals = []float64{0.1, -2.7e-5, 1.0 / 3, 123456.789012345, -0.5, 2, 1e-9}

// ucharPeriod: in size-ladder files 8-bit properties run with pairwise coprime prime periods, so
// that a colour tuple identifies its vertex and no value sequence has a power-of-two period.
var ucharPeriod = map[string]int{"red": 251, "green": 241, "blue": 239, "alpha": 233}

var intExtremes = []float64{-1, -2147483648, 2147483647}

func value(name, typ string, i int, big, ladder, ext bool) float64 {
	s := salt(name)
	if typ == "int" {
		if ext && i < 3 {
			return intExtremes[(i+s)%3]
		}
		if ladder && i >= 1 && i <= 3 {
			return intExtremes[i-1]
		}
	}
	switch typ {
	case "uchar":
		if p, ok := ucharPeriod[name]; ok && ladder {
			return float64((13 + 71*i + 19*s) % p)
		}
		return float64((13 + 71*i + 19*s) % 256)
	case "int":
		v := float64(7*i + s - 5)
		if (i+s)%2 == 1 {
			v = -v
		}
		if big && i == 2 {
			v = 16777217 + float64(s)*2 // odd, beyond 2^24
		}
		return v
	case "float":
		return float64(float32(f32vals[(i+s)%len(f32vals)] + float64(10*i)))
	}
	if big && i == 2 {
		return 1234567.890123456 + float64(s)
	}
	return f64vals[(i+s)%len(f64vals)] + float64(10*i)
}

func uvValue(face, corner, comp int) float64 {
	return float64(float32(0.125*float64(corner) + 0.01*float64(comp) + 0.3*float64(face) + 1.0/3))
}

func init() {
	// harness self-check: every property's values are vertex-unique in every type
	for _, t := range []string{"uchar", "int", "float", "double"} {
		for _, n := range []string{"x", "y", "z", "nx", "red", "alpha", "s", "t", "intensity", "confidence"} {
			for i := 0; i < 5; i++ {
				for j := i + 1; j < 5; j++ {
					if value(n, t, i, false, false, false) == value(n, t, j, false, false, false) {
						panic(fmt.Sprintf("c08: values of %s/%s not vertex-unique (%d,%d)", n, t, i, j))
					}
				}
			}
		}
	}
}

// file builds the reference file of a case.
func (cs Case) file() (*plyref.File, plyref.Layout) {
	f := &plyref.File{Format: cs.Format}
	ve := plyref.Element{Name: "vertex", Count: cs.NV}
	for _, p := range cs.VProps {
		ve.Props = append(ve.Props, plyref.Prop{Name: p.Name, Type: plyref.TypeByName(p.Type), Spell: p.Spell})
	}
	for i := 0; i < cs.NV; i++ {
		row := make([][]float64, len(cs.VProps))
		for k, p := range cs.VProps {
			row[k] = []float64{value(p.Name, p.Type, i, cs.Big, cs.Ladder != "", cs.Ext)}
			if cs.Vals > 0 && (p.Type == "float" || p.Type == "double") {
				row[k][0] = ladderValue(p.Type, cs.Vals-1+7*i+3*k)
			}
		}
		ve.Rows = append(ve.Rows, row)
	}
	f.Elements = append(f.Elements, ve)
	if cs.HasFace {
		fe := plyref.Element{Name: "face", Count: len(cs.Faces)}
		for _, l := range cs.FLists {
			fe.Props = append(fe.Props, plyref.Prop{Name: l.Name, List: true, CountType: plyref.TypeByName(l.Count), Type: plyref.TypeByName(l.Type), CountSpell: l.CountSpell, Spell: l.Spell})
		}
		for fi, face := range cs.Faces {
			row := make([][]float64, len(cs.FLists))
			for k, l := range cs.FLists {
				switch l.Name {
				case "vertex_indices", "vertex_index":
					for _, v := range face {
						row[k] = append(row[k], float64(v))
					}
				case "texcoord":
					for c := range face {
						row[k] = append(row[k], uvValue(fi, c, 0), uvValue(fi, c, 1))
					}
				default: // an unknown list of varying length
					for j := 0; j < (fi+1)%3; j++ {
						row[k] = append(row[k], float64(3*fi+j+1))
					}
					if row[k] == nil {
						row[k] = []float64{}
					}
				}
			}
			fe.Rows = append(fe.Rows, row)
		}
		f.Elements = append(f.Elements, fe)
	}
	lay := plyref.Layout{CRLF: cs.CRLF, Style: cs.Style, Extra: map[int][]string{}}
	for _, e := range cs.Extras {
		lay.Extra[e.After] = append(lay.Extra[e.After], e.Text)
	}
	return f, lay
}

// ---------------------------------------------------------------------------------------------
// oracle
// ---------------------------------------------------------------------------------------------

const (
	clauseLoad   = "a file that follows the specification loads without error"
	clauseVert   = "vertex i carries exactly the values of record i; recognised groups become the corresponding attributes and unknown scalars become scalar attributes"
	clauseFaces  = "faces become triangles over their listed vertices; each quad contributes the fan triangles (0,1,2) and (0,2,3)"
	clauseUV     = "the texture coordinates of a face's texcoord list arrive at the corresponding corners"
	clauseReader = "the file loads to the mesh it describes whatever io.Reader delivers its bytes (result identical to the *bytes.Reader delivery)"
)

type checker struct{ c *core.Ctx }

// eq compares a loaded number with the described one. Binary numbers are copies (bit-exact image of
// the stored type); 8-bit values are computed (k/255); ascii decimals are judged at the stored
// type's precision.
func eq(want, got float64, t plyref.Type, format string) bool {
	if math.IsNaN(got) || math.IsInf(got, 0) {
		return false
	}
	d := math.Abs(want - got)
	switch {
	case t == plyref.UChar:
		return d <= 1e-15
	case t.Integer():
		return d == 0
	case t == plyref.Float:
		if format == plyref.ASCII {
			return d <= math.Abs(want)*math.Pow(2, -23)
		}
		return d == 0
	}
	// a double is the correctly rounded value of its decimal token (what strtod and every conforming
	// reader return) in ascii, a copy of its eight bytes in the binary encodings: "exactly the values"
	return d == 0
}

func faceClass(cs Case) string {
	if cs.Ladder != "" {
		cl := cs
		cl.Ladder = ""
		return faceClass(cl) + "/size-ladder"
	}
	if !cs.HasFace {
		return "no-face-element"
	}
	t, q := 0, 0
	for _, f := range cs.Faces {
		if len(f) == 3 {
			t++
		} else {
			q++
		}
	}
	s := "zero-faces"
	switch {
	case t > 0 && q > 0:
		s = "triangles+quads"
	case t > 0:
		s = "triangles"
	case q > 0:
		s = "quads"
	}
	for _, l := range cs.FLists {
		if l.Name == "vertex_indices" || l.Name == "vertex_index" {
			s += "/count=" + l.Count + ",index=" + l.Type
		}
	}
	for i, l := range cs.FLists {
		if l.Name == "texcoord" {
			if i == 0 {
				s += "/texcoord-first"
			} else {
				s += "/texcoord"
			}
		}
	}
	return s
}

func label(format string) string {
	switch format {
	case plyref.LE:
		return "little"
	case plyref.BE:
		return "big"
	}
	return "ascii"
}

func site(stack string) string {
	return strings.TrimPrefix(core.TopFrame(stack), "formats/")
}

func (k checker) eval(cs Case) {
	c := k.c
	compact := cs // recorded for replay: generated files stay (kind, n, layout)
	cs = cs.resolved()
	f, lay := cs.file()
	data := plyref.Encode(f, lay)
	// harness self-check: the reference parser reads back what the reference encoder wrote
	if pf, err := plyref.Parse(data); err != nil {
		c.HarnessError("reference parser rejects the reference encoder's file (%v): %s", err, caseKey(compact))
		return
	} else if d := sameFile(f, pf); d != "" {
		c.HarnessError("reference encoder/parser disagree (%s): %s", d, caseKey(compact))
		return
	}
	// the described mesh: stored images of the intended numbers
	stored := *f
	stored.Elements = append([]plyref.Element{}, f.Elements...)
	for ei := range stored.Elements {
		e := stored.Elements[ei]
		rows := make([][][]float64, len(e.Rows))
		for r := range e.Rows {
			rows[r] = make([][]float64, len(e.Rows[r]))
			for p := range e.Rows[r] {
				rows[r][p] = make([]float64, len(e.Rows[r][p]))
				for j, v := range e.Rows[r][p] {
					rows[r][p][j] = plyref.Stored(v, e.Props[p].Type, cs.Format)
				}
			}
		}
		e.Rows = rows
		stored.Elements[ei] = e
	}
	want := plyref.Describe(&stored)
	scope := cs.Scope
	isAlarmed := len(want.Unsupported) == 0
	if !isAlarmed {
		scope = "reported/other-unsupported"
		if strings.HasPrefix(want.Unsupported[0], "mixed types") {
			scope = "reported/mixed-types-inside-a-group"
		}
		c.ReportedOnly(scope, "outside the supported grammar (the reader documents mixed types inside a group as unsupported): run and counted, never alarmed")
	}
	fl := label(cs.Format)
	violate := func(site, clause, class, detail string) {
		if !isAlarmed {
			return
		}
		c.Violate(core.Violation{Site: site, Clause: clause, Class: class, Detail: detail + " | " + describe(cs), Case: compact})
	}
	base := plyio.Base(data) // the reference delivery: *bytes.Reader
	outcome := func() string {
		if base.Crash {
			violate(base.Site, clauseLoad, "crash/"+fl+"/"+cs.Scope+"/"+faceClass(cs), "reader crashed: "+base.Err)
			return "crash"
		}
		if !base.Loaded() {
			violate("ply.MeshReader.Read", clauseLoad, "error/"+fl+"/"+cs.Scope+"/"+faceClass(cs), "reader refused a valid file: "+base.Err)
			return "error"
		}
		if !isAlarmed {
			return "loaded"
		}
		m := base.Mesh
		s := base.Snap()
		wantTopo := modeling.PointTopology
		if want.Topo == "tri" {
			wantTopo = modeling.TriangleTopology
		}
		if s.Topo != wantTopo {
			violate("ply.MeshReader.Read", clauseFaces, "topology/"+fl+"/"+faceClass(cs), fmt.Sprintf("topology %v, the file describes %s", s.Topo, want.Topo))
			return "mismatch"
		}
		fsite := "ply.readBinaryFaceElement"
		if cs.Format == plyref.ASCII {
			fsite = "ply.readAsciiFaceElement"
		}
		bad := false
		if !want.HasUV {
			// vertex-wise: attribute arrays are the records in order, indices are the fan triangles
			for _, a := range want.Attrs {
				if cs.NV == 0 {
					break // no vertex record: nothing about vertices is observable
				}
				// every attribute is judged on its own, so that one known difference cannot hide another
				if d := vertexAttr(s, a, cs.Format); d != "" {
					violate(attrSite(a), clauseVert, d[:strings.Index(d, "|")]+"/"+fl+"/"+attrClass(a)+zeroFaces(cs), d[strings.Index(d, "|")+1:])
					bad = true
				}
			}
			if bad {
				return "mismatch"
			}
			if want.Topo == "point" {
				// a point cloud's points are its vertex records: every vertex exactly once
				if fmt.Sprint(sortedInts(s.Idx)) != fmt.Sprint(want.Idx) {
					violate("ply.MeshReader.Read", clauseVert, "point-indices/"+fl, fmt.Sprintf("indices %v, the file describes the points %v", s.Idx, want.Idx))
					return "mismatch"
				}
				return "ok"
			}
			if len(s.Idx)%3 != 0 || fmt.Sprint(triKeys(s.Idx)) != fmt.Sprint(triKeys(want.Idx)) {
				violate(fsite, clauseFaces, "indices/"+fl+"/"+faceClass(cs), fmt.Sprintf("indices %v, the file describes the triangles %v", s.Idx, want.Idx))
				return "mismatch"
			}
			return "ok"
		}
		// per-corner UVs: the reader unwelds, so compare corner by corner
		got := plyref.CornersOf(*m)
		wc := want.Corners()
		if got.Prims != wc.Prims {
			violate(fsite, clauseFaces, "triangle-count/"+fl+"/"+faceClass(cs), fmt.Sprintf("%d triangles, the file describes %d", got.Prims, wc.Prims))
			return "mismatch"
		}
		var names []string
		var types []plyref.Type
		for _, a := range want.Attrs {
			if a.Name == "TexCoord" {
				continue // overridden by the face list
			}
			if wc.N == 0 {
				continue
			}
			g := got.Attrs[a.Name]
			if g == nil || g.Width != a.Width {
				violate(attrSite(a), clauseVert, "missing/"+fl+"/"+attrClass(a), fmt.Sprintf("attribute %s/%d missing (have %v)", a.Name, a.Width, got.Names()))
				return "mismatch"
			}
			names = append(names, a.Name)
			types = append(types, a.Type)
		}
		if wc.N > 0 {
			if g := got.Attrs["TexCoord"]; g == nil || g.Width != 2 {
				violate(fsite, clauseUV, "uv-missing/"+fl+"/"+faceClass(cs), "no TexCoord attribute although the faces carry a texcoord list")
				return "mismatch"
			}
			// triangles as a multiset, each up to rotation of its corners: first by vertex data only …
			if t := matchTris(wc, got, names, types, cs.Format); t >= 0 {
				violate(fsite, clauseFaces, "corner-vertex/"+fl+"/"+faceClass(cs), fmt.Sprintf("no loaded triangle carries the vertex records of described triangle %d (%v)", t, want.Tris[t]))
				return "mismatch"
			}
			// … then with the texture coordinates attached
			if t := matchTris(wc, got, append(names, "TexCoord"), append(types, plyref.Float), cs.Format); t >= 0 {
				violate(fsite, clauseUV, "uv-value/"+fl+"/"+faceClass(cs), fmt.Sprintf("no loaded triangle carries the vertex records and texture coordinates %v of described triangle %d (%v); loaded uvs %v", want.UV[t], t, want.Tris[t], got.Attrs["TexCoord"].Vals))
				return "mismatch"
			}
		}
		return "ok"
	}()
	c.Eval(scope, outcome)
	// the same bytes through every other delivery: identical result demanded
	hdr := "lf"
	if cs.CRLF {
		hdr = "crlf"
	}
	vscope := "reader-variants/" + scope
	if !isAlarmed {
		c.ReportedOnly(vscope, "reader variants on files outside the supported grammar: run and counted, never alarmed")
	}
	differs := 0
	nv := plyio.Variants(data, base, cs.Files, func(variant, kind, vsite, detail string) {
		violate(vsite, clauseReader, "reader="+variant+"/"+kind+"/"+fl+"/"+hdr+"-header"+zeroFaces(cs), detail)
		differs++
	})
	for i := 0; i < nv; i++ {
		if i < differs {
			c.Eval(vscope, "differs")
		} else {
			c.Eval(vscope, "identical")
		}
	}
	if isAlarmed && cs.NV > 0 && len(cs.VProps) > 0 {
		c.NontrivialHash(core.Hash(data))
	}
	c.Sample(scope, map[string]any{"case": compact, "bytes": len(data)})
}

func sortedInts(a []int) []int {
	b := append([]int{}, a...)
	sort.Ints(b)
	return b
}

// triKeys: the triangles of an index array as a sorted multiset, each rotated to its
// lexicographically smallest rotation (orientation preserved).
func triKeys(idx []int) []string {
	var out []string
	for i := 0; i+2 < len(idx); i += 3 {
		t := [3]int{idx[i], idx[i+1], idx[i+2]}
		best := t
		for r := 1; r < 3; r++ {
			q := [3]int{t[r%3], t[(r+1)%3], t[(r+2)%3]}
			if q[0] < best[0] || (q[0] == best[0] && (q[1] < best[1] || (q[1] == best[1] && q[2] < best[2]))) {
				best = q
			}
		}
		out = append(out, fmt.Sprint(best))
	}
	sort.Strings(out)
	return out
}

// matchTris greedily matches every described triangle with a distinct loaded one (up to rotation)
// on the named attributes; it returns the first described triangle without a partner, or -1.
func matchTris(want, got *plyref.Corners, names []string, types []plyref.Type, format string) int {
	nt := want.N / 3
	used := make([]bool, got.N/3)
	cornerEq := func(wk, gk int) bool {
		for ai, n := range names {
			w, g := want.Attrs[n], got.Attrs[n]
			for c := 0; c < w.Width; c++ {
				if !eq(w.Vals[wk][c], g.Vals[gk][c], types[ai], format) {
					return false
				}
			}
		}
		return true
	}
	// linear fast path: the same triangles in the same order (any rotation each)
	inOrder := nt == got.N/3
	for t := 0; t < nt && inOrder; t++ {
		ok := false
		for r := 0; r < 3 && !ok; r++ {
			ok = cornerEq(3*t, 3*t+r) && cornerEq(3*t+1, 3*t+(r+1)%3) && cornerEq(3*t+2, 3*t+(r+2)%3)
		}
		inOrder = ok
	}
	if inOrder {
		return -1
	}
	if nt > 256 {
		// large files: multiset of rotation-normalised triangles keyed by the float32 images of
		// their corner values (n log n instead of the quadratic greedy search)
		key := func(cm *plyref.Corners, t int) string {
			var ks [3]string
			for k := 0; k < 3; k++ {
				var b strings.Builder
				for _, n := range names {
					a := cm.Attrs[n]
					for c := 0; c < a.Width; c++ {
						fmt.Fprintf(&b, "%08x,", math.Float32bits(float32(a.Vals[3*t+k][c])))
					}
				}
				ks[k] = b.String()
			}
			best := ks[0] + ks[1] + ks[2]
			for r := 1; r < 3; r++ {
				if q := ks[r] + ks[(r+1)%3] + ks[(r+2)%3]; q < best {
					best = q
				}
			}
			return best
		}
		have := map[string]int{}
		for u := 0; u < got.N/3; u++ {
			have[key(got, u)]++
		}
		for t := 0; t < nt; t++ {
			kk := key(want, t)
			if have[kk] == 0 {
				return t
			}
			have[kk]--
		}
		return -1
	}
	for t := 0; t < nt; t++ {
		found := false
		for u := 0; u < len(used) && !found; u++ {
			if used[u] {
				continue
			}
			for r := 0; r < 3 && !found; r++ {
				if cornerEq(3*t, 3*u+r) && cornerEq(3*t+1, 3*u+(r+1)%3) && cornerEq(3*t+2, 3*u+(r+2)%3) {
					used[u] = true
					found = true
				}
			}
		}
		if !found {
			return t
		}
	}
	return -1
}

// zeroFaces marks the one structural class in which vertex data depends on the face element.
func zeroFaces(cs Case) string {
	if cs.Ladder != "" {
		return "/size-ladder" // sizes beyond the small scopes are their own input class
	}
	if cs.HasFace && len(cs.Faces) == 0 {
		return "/face-element-with-zero-faces"
	}
	return ""
}

func attrClass(a plyref.Attr) string {
	if a.Width == 1 {
		return "scalar-property:" + a.Type.String()
	}
	return "vector-property:" + a.Type.String()
}

func attrSite(a plyref.Attr) string {
	return fmt.Sprintf("ply.Vector%dPropertyReader", a.Width)
}

// vertexAttr compares one described attribute with the loaded mesh; "" or "kind|detail".
func vertexAttr(s meshlib.Snap, a plyref.Attr, format string) string {
	var got [][4]float64
	found := false
	switch a.Width {
	case 1:
		if d, ok := s.F1[a.Name]; ok {
			found = true
			for _, v := range d {
				got = append(got, [4]float64{v})
			}
		}
	case 2:
		if d, ok := s.F2[a.Name]; ok {
			found = true
			for _, v := range d {
				got = append(got, [4]float64{v.X(), v.Y()})
			}
		}
	case 3:
		if d, ok := s.F3[a.Name]; ok {
			found = true
			for _, v := range d {
				got = append(got, [4]float64{v.X(), v.Y(), v.Z()})
			}
		}
	case 4:
		if d, ok := s.F4[a.Name]; ok {
			found = true
			for _, v := range d {
				got = append(got, [4]float64{v.X(), v.Y(), v.Z(), v.W()})
			}
		}
	}
	if !found {
		return fmt.Sprintf("missing|attribute %s with %d components missing (float1 %v float2 %v float3 %v float4 %v)", a.Name, a.Width, s.Names[0], s.Names[1], s.Names[2], s.Names[3])
	}
	if len(got) != len(a.Vals) {
		return fmt.Sprintf("vertex-count|attribute %s has %d entries, the file has %d vertex records", a.Name, len(got), len(a.Vals))
	}
	for i := range got {
		for c := 0; c < a.Width; c++ {
			if !eq(a.Vals[i][c], got[i][c], a.Type, format) {
				return fmt.Sprintf("value|vertex %d of %s (%s): loaded %v, record says %v (stored %v)", i, a.Name, a.Type, got[i][:a.Width], a.Vals[i][:a.Width], a.Raw[i][:a.Width])
			}
		}
	}
	return ""
}

func sameFile(a, b *plyref.File) string {
	if a.Format != b.Format || len(a.Elements) != len(b.Elements) {
		return "format/elements"
	}
	for ei := range a.Elements {
		x, y := a.Elements[ei], b.Elements[ei]
		if x.Name != y.Name || x.Count != y.Count || len(x.Props) != len(y.Props) {
			return "element " + x.Name
		}
		for pi := range x.Props {
			p, q := x.Props[pi], y.Props[pi]
			if p.Name != q.Name || p.List != q.List || p.Type != q.Type || (p.List && p.CountType != q.CountType) {
				return "property " + p.Name
			}
		}
		for r := range x.Rows {
			for pi := range x.Rows[r] {
				if len(x.Rows[r][pi]) != len(y.Rows[r][pi]) {
					return fmt.Sprintf("row %d of %s: list length", r, x.Name)
				}
				for j, v := range x.Rows[r][pi] {
					st, pv := plyref.Stored(v, x.Props[pi].Type, a.Format), y.Rows[r][pi][j]
					if x.Props[pi].Type == plyref.Float {
						// an ascii decimal identifies the float32; the parser holds it at full precision
						st, pv = float64(float32(st)), float64(float32(pv))
					}
					if st != pv {
						return fmt.Sprintf("row %d of %s property %s: %v vs %v", r, x.Name, x.Props[pi].Name, v, y.Rows[r][pi][j])
					}
				}
			}
		}
	}
	return ""
}

func describe(cs Case) string {
	var ps []string
	for _, p := range cs.VProps {
		ps = append(ps, p.Type+" "+p.Name)
	}
	var ls []string
	for _, l := range cs.FLists {
		ls = append(ls, "list "+l.Count+" "+l.Type+" "+l.Name)
	}
	if cs.Ladder != "" {
		return fmt.Sprintf("size-ladder %s n=%d: %s vertex[%d]{%s} face=%v{%s} (%d faces)", cs.Ladder, cs.N, cs.Format, cs.NV, strings.Join(ps, ", "), cs.HasFace, strings.Join(ls, ", "), len(cs.Faces))
	}
	return fmt.Sprintf("%s crlf=%v vertex[%d]{%s} face=%v{%s} faces=%v extras=%d", cs.Format, cs.CRLF, cs.NV, strings.Join(ps, ", "), cs.HasFace, strings.Join(ls, ", "), cs.Faces, len(cs.Extras))
}

func caseKey(cs Case) string {
	b, _ := json.Marshal(cs)
	return string(b)
}

// ---------------------------------------------------------------------------------------------
// enumeration
// ---------------------------------------------------------------------------------------------

type group struct {
	id    string
	names []string
}

var (
	gPos  = group{"pos", []string{"x", "y", "z"}}
	gNrm  = group{"nrm", []string{"nx", "ny", "nz"}}
	gCol3 = group{"rgb", []string{"red", "green", "blue"}}
	gCol4 = group{"rgba", []string{"red", "green", "blue", "alpha"}}
	gUV   = group{"uv", []string{"s", "t"}}
	gU1   = group{"u1", []string{"intensity"}}
	gU2   = group{"u2", []string{"confidence"}}
	gOpa  = group{"opacity", []string{"opacity"}}
)

var allGroups = []group{gPos, gNrm, gCol3, gCol4, gUV, gU1, gU2, gOpa}
var vtypes = []string{"uchar", "int", "float", "double"}

func permutations(n int) [][]int {
	if n == 0 {
		return [][]int{{}}
	}
	var out [][]int
	var rec func(p []int, used int)
	rec = func(p []int, used int) {
		if len(p) == n {
			out = append(out, append([]int{}, p...))
			return
		}
		for i := 0; i < n; i++ {
			if used&(1<<i) == 0 {
				rec(append(p, i), used|1<<i)
			}
		}
	}
	rec(nil, 0)
	return out
}

// groupSets: all sets of complete groups (rgb and rgba exclusive) with 1..maxProps properties.
func groupSets(maxProps int) [][]group {
	var out [][]group
	n := len(allGroups)
	for mask := 1; mask < 1<<n; mask++ {
		var gs []group
		total := 0
		for i, g := range allGroups {
			if mask&(1<<i) != 0 {
				gs = append(gs, g)
				total += len(g.names)
			}
		}
		if mask&(1<<2) != 0 && mask&(1<<3) != 0 {
			continue
		}
		if total <= maxProps {
			out = append(out, gs)
		}
	}
	sort.SliceStable(out, func(i, j int) bool { return size(out[i]) < size(out[j]) })
	return out
}

func size(gs []group) int {
	n := 0
	for _, g := range gs {
		n += len(g.names)
	}
	return n
}

// flat lists the properties of a group set with one type per group.
func flat(gs []group, types []string) []VProp {
	var ps []VProp
	for gi, g := range gs {
		for _, n := range g.names {
			ps = append(ps, VProp{Name: n, Type: types[gi]})
		}
	}
	return ps
}

func typeTuples(n int) [][]string {
	var out [][]string
	for _, t := range meshlib.Tuples(len(vtypes), n) {
		ts := make([]string, n)
		for i, x := range t {
			ts[i] = vtypes[x]
		}
		out = append(out, ts)
	}
	return out
}

func permute(ps []VProp, perm []int) []VProp {
	out := make([]VProp, len(ps))
	for dst, src := range perm {
		out[dst] = ps[src]
	}
	return out
}

var baseIdx = FList{Name: "vertex_indices", Count: "uchar", Type: "int"}

func run(c *core.Ctx) {
	k := checker{c}
	next := func() bool { return c.Next() }
	k.layouts(next)
	k.faces(next)
	k.headerText(next)
	k.spellings(next)
	k.counts(next)
	k.mixed(next)
	k.ladder(next)
	k.numbers(next)
	k.permutations(next)
	k.interleavings(next)
}

// S1: every permutation of every set of complete groups with ≤ 5 (thorough ≤ 6) properties ×
// every type per group × encoding × {point cloud, one face}.
func (k checker) permutations(next func() bool) {
	c := k.c
	maxProps := 5
	if c.Thorough() {
		maxProps = 6
	}
	c.Bound("permutations.max_properties", maxProps)
	sets := groupSets(maxProps)
	c.Bound("permutations.group_sets", len(sets))
	for _, gs := range sets {
		perms := permutations(size(gs))
		for _, ts := range typeTuples(len(gs)) {
			ps := flat(gs, ts)
			for _, perm := range perms {
				if c.Expired() {
					return
				}
				if !next() {
					continue
				}
				pp := permute(ps, perm)
				for _, f := range plyref.Formats {
					k.eval(Case{Scope: "permutations", Format: f, VProps: pp, NV: 3, Big: true})
					k.eval(Case{Scope: "permutations", Format: f, VProps: pp, NV: 3, Ext: true, HasFace: true, FLists: []FList{baseIdx}, Faces: [][]int{{2, 0, 1}}})
				}
			}
		}
	}
}

// S1b: all fifteen properties at once in a family of orders (identity, reverse, every rotation,
// round-robin across the groups) × types per group.
func (k checker) interleavings(next func() bool) {
	c := k.c
	gs := []group{gPos, gNrm, gCol4, gUV, gU1, gU2, gOpa}
	n := size(gs)
	var orders [][]int
	id := make([]int, n)
	for i := range id {
		id[i] = i
	}
	for r := 0; r < n; r++ {
		o := make([]int, n)
		for i := range o {
			o[i] = id[(i+r)%n]
		}
		orders = append(orders, o)
	}
	rev := make([]int, n)
	for i := range rev {
		rev[i] = n - 1 - i
	}
	orders = append(orders, rev)
	// round robin: x nx red s intensity confidence opacity y ny green t z nz blue alpha
	var rr []int
	for round := 0; round < 4; round++ {
		off := 0
		for _, g := range gs {
			if round < len(g.names) {
				rr = append(rr, off+round)
			}
			off += len(g.names)
		}
	}
	orders = append(orders, rr)
	c.Bound("interleavings.orders", len(orders))
	var tts [][]string
	if c.Thorough() {
		tts = typeTuples(len(gs))
	} else {
		// every uniform typing + every typing that differs from a uniform one in one group
		for _, base := range vtypes {
			u := make([]string, len(gs))
			for i := range u {
				u[i] = base
			}
			tts = append(tts, u)
			for gi := range gs {
				for _, t := range vtypes {
					if t != base {
						v := append([]string{}, u...)
						v[gi] = t
						tts = append(tts, v)
					}
				}
			}
		}
	}
	c.Bound("interleavings.typings", len(tts))
	for _, ts := range tts {
		ps := flat(gs, ts)
		for _, o := range orders {
			if c.Expired() {
				return
			}
			if !next() {
				continue
			}
			pp := permute(ps, o)
			for _, f := range plyref.Formats {
				k.eval(Case{Scope: "interleavings", Format: f, VProps: pp, NV: 3, Ext: true, HasFace: true, FLists: []FList{baseIdx}, Faces: [][]int{{0, 1, 2}, {2, 1, 0}}})
			}
		}
	}
}

var baseProps = []VProp{{Name: "x", Type: "float"}, {Name: "y", Type: "float"}, {Name: "z", Type: "float"},
	{Name: "red", Type: "uchar"}, {Name: "green", Type: "uchar"}, {Name: "blue", Type: "uchar"}, {Name: "intensity", Type: "int"}, {Name: "opacity", Type: "int"}}

// S0: base layouts — a smoke level that also anchors the other dimensions.
func (k checker) layouts(next func() bool) {
	for _, f := range plyref.Formats {
		if !next() {
			continue
		}
		k.eval(Case{Scope: "base", Format: f, VProps: baseProps, NV: 3, Ext: true, Files: true})
		k.eval(Case{Scope: "base", Format: f, VProps: baseProps, NV: 4, Ext: true, Files: true, HasFace: true, FLists: []FList{baseIdx}, Faces: [][]int{{0, 1, 2}, {0, 2, 3}}})
	}
}

// S4: faces — count type × index type × list name × every sequence of ≤ 2 (thorough ≤ 3) faces from
// a menu of triangles and quads × texcoord list (absent / after / before the indices) × an unknown
// extra list × vertex count 0..4 × encoding.
func (k checker) faces(next func() bool) {
	c := k.c
	maxFaces := 2
	if c.Thorough() {
		maxFaces = 3
	}
	c.Bound("faces.max_faces", maxFaces)
	menu := [][]int{{0, 1, 2}, {2, 0, 1}, {1, 1, 0}, {0, 1, 2, 3}, {3, 1, 0, 2}}
	vprops := []VProp{{Name: "x", Type: "float"}, {Name: "y", Type: "float"}, {Name: "z", Type: "float"}, {Name: "intensity", Type: "int"}}
	for nv := 0; nv <= 4; nv++ {
		var avail [][]int
		for _, f := range menu {
			ok := true
			for _, v := range f {
				if v >= nv {
					ok = false
				}
			}
			if ok {
				avail = append(avail, f)
			}
		}
		var seqs [][][]int
		for n := 0; n <= maxFaces; n++ {
			if len(avail) == 0 && n > 0 {
				break
			}
			for _, t := range meshlib.Tuples(len(avail), n) {
				var s [][]int
				for _, x := range t {
					s = append(s, avail[x])
				}
				if s == nil {
					s = [][]int{}
				}
				seqs = append(seqs, s)
			}
		}
		for _, seq := range seqs {
			for _, ct := range []string{"uchar", "int", "uint"} {
				for _, it := range []string{"int", "uint"} {
					for _, name := range []string{"vertex_indices", "vertex_index"} {
						for tex := 0; tex < 3; tex++ {
							for extra := 0; extra < 2; extra++ {
								if c.Expired() {
									return
								}
								if !next() {
									continue
								}
								idx := FList{Name: name, Count: ct, Type: it}
								lists := []FList{idx}
								uv := FList{Name: "texcoord", Count: "uchar", Type: "float"}
								if ct == "int" { // vary the texcoord count type along with the index count type
									uv.Count = "int"
								}
								switch tex {
								case 1:
									lists = []FList{idx, uv}
								case 2:
									lists = []FList{uv, idx}
								}
								if extra == 1 {
									lists = append([]FList{{Name: "flags", Count: "uchar", Type: "int"}}, lists...)
								}
								for _, f := range plyref.Formats {
									k.eval(Case{Scope: "faces", Format: f, VProps: vprops, NV: nv, Ext: true, HasFace: true, FLists: lists, Faces: seq})
								}
							}
						}
					}
				}
			}
		}
	}
}

// S3: comment / obj_info lines at every header position, alone and everywhere at once, LF and CRLF.
func (k checker) headerText(next func() bool) {
	c := k.c
	texts := []string{
		"comment made by the reference encoder",
		"comment",
		"obj_info something 1 2 3",
		"comment property float fake",
		"comment element vertex 9",
		"obj_info element face 7",
		"comment end_header",
		"comment format ascii 1.0",
	}
	c.Bound("header_text.lines", len(texts))
	base := Case{Scope: "header-text", VProps: baseProps, NV: 3, Ext: true, Files: true, HasFace: true,
		FLists: []FList{baseIdx, {Name: "texcoord", Count: "uchar", Type: "float"}}, Faces: [][]int{{0, 1, 2}}}
	f0, _ := base.withFormat(plyref.ASCII).file()
	n := f0.NumHeaderLines()
	c.Bound("header_text.positions", n-2)
	for _, crlf := range []bool{false, true} {
		for _, f := range plyref.Formats {
			if next() {
				cs := base.withFormat(f)
				cs.CRLF = crlf
				k.eval(cs)
				// everywhere at once
				all := cs
				for pos := 1; pos <= n-2; pos++ {
					all.Extras = append(all.Extras, Extra{pos, texts[pos%len(texts)]}, Extra{pos, texts[(pos+3)%len(texts)]})
				}
				k.eval(all)
			}
			for pos := 1; pos <= n-2; pos++ {
				for _, t := range texts {
					if c.Expired() {
						return
					}
					if !next() {
						continue
					}
					cs := base.withFormat(f)
					cs.CRLF = crlf
					cs.Extras = []Extra{{pos, t}}
					k.eval(cs)
				}
			}
		}
	}
	// point clouds with CRLF headers (the body starts right after the header's last LF)
	for _, f := range plyref.Formats {
		for nv := 0; nv <= 3; nv++ {
			if !next() {
				continue
			}
			k.eval(Case{Scope: "header-text", Format: f, CRLF: true, VProps: baseProps, NV: nv, Ext: true, Files: true})
		}
	}
}

func (cs Case) withFormat(f string) Case {
	cs.Format = f
	return cs
}

// S2: both spellings of every type: per group a spelling, every uniform typing; list types likewise.
func (k checker) spellings(next func() bool) {
	c := k.c
	gs := []group{gPos, gNrm, gCol4, gUV, gU1, gU2}
	for _, t := range vtypes {
		for mask := 0; mask < 1<<len(gs); mask++ {
			if c.Expired() {
				return
			}
			if !next() {
				continue
			}
			var ps []VProp
			for gi, g := range gs {
				for _, n := range g.names {
					ps = append(ps, VProp{Name: n, Type: t, Spell: (mask >> gi) & 1})
				}
			}
			for _, f := range plyref.Formats {
				k.eval(Case{Scope: "type-spellings", Format: f, VProps: ps, NV: 3, Ext: true})
			}
		}
	}
	// mixed typings with alternating spellings
	for ti, ts := range typeTuples(len(gs)) {
		if ti%7 != 0 && !c.Thorough() {
			continue
		}
		if c.Expired() {
			return
		}
		if !next() {
			continue
		}
		var ps []VProp
		for gi, g := range gs {
			for ni, n := range g.names {
				ps = append(ps, VProp{Name: n, Type: ts[gi], Spell: (gi + ni + ti) % 2})
			}
		}
		// spelling is per property here: the same type may be spelled both ways inside one group
		for _, f := range plyref.Formats {
			k.eval(Case{Scope: "type-spellings", Format: f, VProps: ps, NV: 2})
		}
	}
	for _, ct := range []string{"uchar", "int", "uint"} {
		for _, it := range []string{"int", "uint"} {
			for sp := 0; sp < 8; sp++ {
				if !next() {
					continue
				}
				lists := []FList{{Name: "vertex_indices", Count: ct, Type: it, CountSpell: sp & 1, Spell: (sp >> 1) & 1},
					{Name: "texcoord", Count: ct, Type: "float", CountSpell: (sp >> 1) & 1, Spell: (sp >> 2) & 1}}
				for _, f := range plyref.Formats {
					k.eval(Case{Scope: "type-spellings", Format: f, VProps: baseProps, NV: 4, HasFace: true, FLists: lists, Faces: [][]int{{0, 1, 2, 3}, {3, 2, 1}}})
					k.eval(Case{Scope: "type-spellings", Format: f, VProps: baseProps, NV: 4, HasFace: true, FLists: lists[:1], Faces: [][]int{{0, 1, 2, 3}, {3, 2, 1}}})
				}
			}
		}
	}
}

// S5: vertex and face counts 0..3 / 0..2 on the base layout.
func (k checker) counts(next func() bool) {
	for nv := 0; nv <= 3; nv++ {
		for _, f := range plyref.Formats {
			if !next() {
				continue
			}
			k.eval(Case{Scope: "counts", Format: f, Ext: true, Files: true, VProps: baseProps, NV: nv})
			k.eval(Case{Scope: "counts", Format: f, Ext: true, Files: true, VProps: baseProps, NV: nv, HasFace: true, FLists: []FList{baseIdx}, Faces: [][]int{}})
			if nv == 3 {
				k.eval(Case{Scope: "counts", Format: f, Ext: true, Files: true, VProps: baseProps, NV: nv, HasFace: true, FLists: []FList{baseIdx}, Faces: [][]int{{0, 1, 2}}})
				k.eval(Case{Scope: "counts", Format: f, Ext: true, Files: true, VProps: baseProps, NV: nv, HasFace: true, FLists: []FList{baseIdx}, Faces: [][]int{{0, 1, 2}, {2, 1, 0}}})
			}
		}
	}
}

// SL: size ladder. Thresholds a change may introduce (block sizes, chunked decoding) lie far above
// the small scopes, so element counts 2^k-1, 2^k, 2^k+1 and one in between are run for k = 2..15
// (thorough 2..17): files with n vertex records (point clouds) and files with n faces (triangles and
// quads mixed, non-identity corner orders) with uchar / int / uint list counts (the int variant also
// carries a texcoord list), double positions, float normals, 8-bit colours and an int scalar, in all
// three encodings. Every record is unique and no value sequence has a power-of-two period.
func (k checker) ladder(next func() bool) {
	c := k.c
	kmax := 15
	if c.Thorough() {
		kmax = 17
	}
	sizes := plyref.Ladder(2, kmax)
	c.Bound("size_ladder", fmt.Sprintf("2^k-1, 2^k, 2^k+1, 3*2^(k-1)+1 for k=2..%d (%d sizes, largest %d)", kmax, len(sizes), sizes[len(sizes)-1]))
	vprops := []VProp{{Name: "x", Type: "double"}, {Name: "y", Type: "double"}, {Name: "z", Type: "double"},
		{Name: "nx", Type: "float"}, {Name: "ny", Type: "float"}, {Name: "nz", Type: "float"},
		{Name: "red", Type: "uchar"}, {Name: "green", Type: "uchar"}, {Name: "blue", Type: "uchar"}, {Name: "intensity", Type: "int"}}
	for _, n := range sizes {
		for v := 0; v < 4; v++ {
			if c.Expired() {
				return
			}
			if !next() {
				continue
			}
			cs := Case{Scope: "size-ladder/cloud", VProps: vprops, Ladder: "cloud", N: n}
			switch v {
			case 1:
				cs = Case{Scope: "size-ladder/faces", VProps: vprops, Ladder: "faces", N: n, FLists: []FList{{Name: "vertex_indices", Count: "uchar", Type: "int"}}}
			case 2:
				cs = Case{Scope: "size-ladder/faces", VProps: vprops, Ladder: "faces", N: n,
					FLists: []FList{{Name: "vertex_index", Count: "int", Type: "uint"}, {Name: "texcoord", Count: "int", Type: "float"}}}
			case 3:
				cs = Case{Scope: "size-ladder/faces", VProps: vprops, Ladder: "faces", N: n, FLists: []FList{{Name: "vertex_indices", Count: "uint", Type: "uint"}}}
			}
			// *os.File / ply.Load do real I/O: the rungs up to 2^12+1 and the top rung only
			cs.Files = n <= 4097 || n == sizes[len(sizes)-1]
			for _, f := range plyref.Formats {
				k.eval(cs.withFormat(f))
			}
			if n >= 8191 {
				// the same rung with the process limited to three processors (the job's default is two)
				cs.Files = false
				c.WithProcs(3, func() {
					for _, f := range plyref.Formats {
						k.eval(cs.withFormat(f))
					}
				})
			}
		}
	}
}

// S6 (reported only): one member of a group typed differently from the others.
func (k checker) mixed(next func() bool) {
	for _, g := range []group{gPos, gCol4, gUV} {
		for m := range g.names {
			for _, a := range vtypes {
				for _, b := range vtypes {
					if a == b {
						continue
					}
					if !next() {
						continue
					}
					var ps []VProp
					for i, n := range g.names {
						t := a
						if i == m {
							t = b
						}
						ps = append(ps, VProp{Name: n, Type: t})
					}
					ps = append(ps, VProp{Name: "intensity", Type: "float"})
					for _, f := range plyref.Formats {
						k.eval(Case{Scope: "mixed-types", Format: f, VProps: ps, NV: 2})
					}
				}
			}
		}
	}
}

// ---------------------------------------------------------------------------------------------
// replay
// ---------------------------------------------------------------------------------------------

func replay(c *core.Ctx) {
	var cs Case
	if err := json.Unmarshal(c.Replay, &cs); err != nil {
		c.HarnessError("bad case: %v", err)
		return
	}
	checker{c}.eval(cs)
}
