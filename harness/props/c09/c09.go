// Package c09: marching cubes yields a closed, outward-oriented surface on the isosurface
// (DESIGN §4 C09, §3.6).
//
// Bounded-exhaustive enumeration of analytic shapes × placements relative to the canvas' storage
// blocks × resolutions × cutoffs. Two builds share this explorer: the plain one (real block edge
// 100, `-arg block=100` or none) and the scaled one (`blk6-c09`: an overlay that changes only the
// constant marchingSectionSize to 6, `-arg block=6`) which explores every integer and half-integer
// offset over a 3×3×3 block neighbourhood.
package c09

import (
	"runtime"
	"encoding/json"
	"fmt"
	"io"
	"log"
	"math"
	"reflect"
	"strconv"

	"github.com/EliCDavis/polyform/math/sample"
	"github.com/EliCDavis/polyform/modeling"
	"github.com/EliCDavis/polyform/modeling/marching"
	"github.com/EliCDavis/vector/vector3"

	"verif/harness/core"
)

func init() { core.Register(core.Check{ID: "C09", Run: run, Replay: replay}) }

// ---- which block edge was this binary built with? (reporting / harness sanity only) ----

func detectBlock() int {
	defer func() { recover() }()
	cv := marching.NewMarchingCanvas(1)
	cv.AddField(marching.Sphere(vector3.New(0.5, 0.5, 0.5), 0.25, 1))
	f := reflect.ValueOf(cv).Elem().FieldByName("float1Data")
	if !f.IsValid() || f.Kind() != reflect.Slice || f.Len() == 0 {
		return 0
	}
	n := f.Index(0).Len()
	b := int(math.Round(math.Cbrt(float64(n))))
	if b*b*b != n {
		return 0
	}
	return b
}

func wantBlock(c *core.Ctx) int {
	if s, ok := c.Args["block"]; ok {
		if b, err := strconv.Atoi(s); err == nil && b > 0 {
			return b
		}
	}
	return 100
}

// ---- shapes ----

type shapeT struct {
	name     string
	via      string
	parts    []Part // centred on the origin; the placement translates them
	strength float64
	margin   float64
}

func sph(r float64, at ...float64) Part {
	p := Part{Kind: "sphere", R: r}
	copy(p.C[:], at)
	return p
}
func box(x, y, z float64, at ...float64) Part {
	p := Part{Kind: "box", Size: [3]float64{x, y, z}}
	copy(p.C[:], at)
	return p
}
func caps(r, ex, ey, ez float64, at ...float64) Part {
	p := Part{Kind: "capsule", R: r, E: [3]float64{ex, ey, ez}}
	copy(p.C[:], at)
	return p
}

func shapes100(thorough bool) []shapeT {
	q := []shapeT{
		{name: "sphere r=1.7", via: "marching", parts: []Part{sph(1.7)}, strength: 1},
		{name: "box 1x1.5x2", via: "marching", parts: []Part{box(1, 1.5, 2)}, strength: 1},
		{name: "box 1x1.5x2 shifted 0.0005 (faces on 3-decimal rounding ties)", via: "marching", parts: []Part{box(1, 1.5, 2, 0.0005, 0.0005, 0.0005)}, strength: 1},
		{name: "union sphere+box", via: "marching", parts: []Part{sph(1.5), box(2, 2, 2, 1.2, 0.7, 0)}, strength: 1},
		{name: "sdf sphere r=1.3 margin 0.1", via: "sdf", parts: []Part{sph(1.3)}, margin: 0.1},
	}
	if !thorough {
		return q
	}
	return append(q,
		shapeT{name: "capsule", via: "marching", parts: []Part{caps(0.6, 2, 1, 0)}, strength: 1},
		shapeT{name: "box 2x3x4", via: "marching", parts: []Part{box(2, 3, 4)}, strength: 1},
		shapeT{name: "sphere r=1", via: "marching", parts: []Part{sph(1)}, strength: 1},
		shapeT{name: "sphere r=2.5", via: "marching", parts: []Part{sph(2.5)}, strength: 1},
		shapeT{name: "sphere r=1.7 strength 2", via: "marching", parts: []Part{sph(1.7)}, strength: 2},
		shapeT{name: "box 1x1x1", via: "marching", parts: []Part{box(1, 1, 1)}, strength: 1},
		shapeT{name: "box 3.5x1.2x2.6 strength 2", via: "marching", parts: []Part{box(3.5, 1.2, 2.6)}, strength: 2},
		shapeT{name: "capsule z", via: "marching", parts: []Part{caps(1, 0, 0, 3)}, strength: 1},
		shapeT{name: "capsule skew", via: "marching", parts: []Part{caps(0.45, -1.5, 2, 2.5)}, strength: 1},
		shapeT{name: "union two spheres apart", via: "marching", parts: []Part{sph(1), sph(1.2, 3.5, 0.5, -0.5)}, strength: 1},
		shapeT{name: "union capsule+box", via: "marching", parts: []Part{caps(0.7, 0, 3, 0), box(3, 1, 1.5, 0, 1.5, 0)}, strength: 1},
		shapeT{name: "sdf box margin 0.25", via: "sdf", parts: []Part{box(2, 1.5, 3)}, margin: 0.25},
		shapeT{name: "sdf capsule margin 0.05", via: "sdf", parts: []Part{caps(0.8, 1, 2, -1)}, margin: 0.05},
		shapeT{name: "sdf union sphere+capsule margin 0.5", via: "sdf", parts: []Part{sph(1.1), caps(0.5, 2.5, 0, 0.5)}, margin: 0.5},
	)
}

func shapes6(thorough bool) []shapeT {
	q := []shapeT{
		{name: "sphere r=1.3", via: "marching", parts: []Part{sph(1.3)}, strength: 1},
		{name: "box 1.5x2x1", via: "marching", parts: []Part{box(1.5, 2, 1)}, strength: 1},
		{name: "box 1.5x2x1 shifted 0.0005 (faces on 3-decimal rounding ties)", via: "marching", parts: []Part{box(1.5, 2, 1, 0.0005, 0.0005, 0.0005)}, strength: 1},
		{name: "capsule", via: "marching", parts: []Part{caps(0.6, 1, 0.5, 0)}, strength: 1},
		{name: "union sphere+box", via: "marching", parts: []Part{sph(1), box(1, 1, 1, 0.9, 0.4, 0)}, strength: 1},
		{name: "sdf sphere r=1 margin 0.1", via: "sdf", parts: []Part{sph(1)}, margin: 0.1},
	}
	return q
}

func (s shapeT) at(c [3]float64) []Part {
	out := make([]Part, len(s.parts))
	for i, p := range s.parts {
		q := p
		for a := 0; a < 3; a++ {
			q.C[a] = p.C[a] + c[a]
		}
		out[i] = q
	}
	return out
}

// ---- placements at the real block edge ----

type placeT struct {
	name string
	k    [3]float64 // lattice coordinate of the anchor, in units of the block edge
}

func places100(thorough bool) []placeT {
	i, p, z, n, m := 0.5, 1., 0., -1., -0.5
	q := []placeT{
		{"interior", [3]float64{i, i, i}},
		{"+x face", [3]float64{p, i, i}},
		{"+y face", [3]float64{i, p, i}},
		{"+z face", [3]float64{i, i, p}},
		{"+xy edge", [3]float64{p, p, i}},
		{"0 corner", [3]float64{z, z, z}},
		{"0 x face", [3]float64{z, i, i}},
		{"negative interior", [3]float64{m, m, m}},
	}
	if !thorough {
		return q
	}
	return append(q,
		placeT{"-xy edge", [3]float64{n, n, m}},
		placeT{"+xyz corner", [3]float64{p, p, p}}, placeT{"+xz edge", [3]float64{p, i, p}}, placeT{"+yz edge", [3]float64{i, p, p}},
		placeT{"0 y face", [3]float64{i, z, i}}, placeT{"0 z face", [3]float64{i, i, z}},
		placeT{"0 xy edge", [3]float64{z, z, i}}, placeT{"0 xz edge", [3]float64{z, i, z}}, placeT{"0 yz edge", [3]float64{i, z, z}},
		placeT{"0 x face, negative side", [3]float64{z, m, m}},
		placeT{"-x face", [3]float64{n, m, m}}, placeT{"-y face", [3]float64{m, n, m}}, placeT{"-z face", [3]float64{m, m, n}},
		placeT{"-xz edge", [3]float64{n, m, n}}, placeT{"-yz edge", [3]float64{m, n, n}}, placeT{"-xyz corner", [3]float64{n, n, n}},
		placeT{"mixed +x 0y -z", [3]float64{p, z, n}}, placeT{"mixed 0x +y neg", [3]float64{z, p, m}},
	)
}

var subOffsets = [][3]float64{{0.3, 0.2, 0.1}, {0, 0, 0}, {-0.25, 0.5, 0.125}}

var cpus = []float64{1, 2, 3}
var cutoffs = []float64{0, -0.25}

// ---- run ----

func run(c *core.Ctx) {
	log.SetOutput(io.Discard)
	B := wantBlock(c)
	if got := detectBlock(); got != 0 && got != B {
		c.HarnessError("this binary stores %d^3 blocks but was asked to explore block=%d (overlay not applied?)", got, B)
		return
	}
	c.Bound(bname(B, "block_edge"), B)
	c.Bound(bname(B, "cutoffs"), cutoffs)
	c.ReportedOnly("precondition-not-met", "below-threshold region not strictly inside the declared domain: run and counted, never alarmed")
	if B >= 50 {
		runReal(c, B)
	} else {
		runScaled(c, B)
	}
}

// runFieldMarch: the canvas-free marcher Field.March shares the case table with the canvas but not
// its storage; the statement speaks of "marching the canvas", so this entry point is run and
// reported, never alarmed.
func runFieldMarch(c *core.Ctx) {
	c.ReportedOnly("field.March", "Field.March (no canvas, no blocks) is outside 'marching the canvas': run and reported only")
	for _, s := range shapes6(true) {
		for _, cpu := range cpus {
			for _, sub := range [][3]float64{{0, 0, 0}, {0.5, 0.5, 0.5}, {0.5, 0, 0}, {0.3, 0.2, 0.1}, {-7.25, 3.5, 0.75}} {
				if !c.Next() {
					continue
				}
				for _, cut := range cutoffs {
					ctr := [3]float64{sub[0] / cpu, sub[1] / cpu, sub[2] / cpu}
					cs := Case{Via: s.via, Parts: s.at(ctr), Strength: s.strength, Margin: s.margin, CPU: cpu, Cutoff: cut, Entry: "field", Block: 0}
					one(c, cs, "field.March")
				}
			}
		}
	}
}

// runTable: all 256 sign configurations of one lattice cube (everything around it above the
// threshold), with the cube placed inside a block, on the last cell of a block (its far corners are
// fetched from the neighbouring blocks) and across the 0 / -1 block boundary, per axis.
func runTable(c *core.Ctx, B int, origins [][3]int, cps, cuts []float64) {
	c.Bound(bname(B, "table.configurations"), 256)
	c.Bound(bname(B, "table.cube_origins_lattice"), origins)
	c.Bound(bname(B, "table.cubes_per_unit"), cps)
	c.Bound(bname(B, "table.cutoffs"), cuts)
	for _, o := range origins {
		for _, cpu := range cps {
			for cfg := 0; cfg < 256; cfg++ {
				if !c.Next() {
					continue
				}
				if expired(c) {
					return
				}
				for _, cut := range cuts {
					one(c, Case{Via: "lattice", Config: cfg, Origin: o, CPU: cpu, Cutoff: cut, Entry: "canvas", Block: B}, fmt.Sprintf("block%d/table", B))
				}
			}
		}
	}
}

func runReal(c *core.Ctx, B int) {
	runFieldMarch(c)
	if c.Thorough() {
		runTable(c, B, [][3]int{{2, 2, 2}, {B - 1, 2, 2}, {2, B - 1, 2}, {2, 2, B - 1}, {B - 1, B - 1, B - 1}}, []float64{1}, []float64{0})
	}
	sh, pl := shapes100(c.Thorough()), places100(c.Thorough())
	subs := subOffsets[:1]
	cp := []float64{1, 3}
	if c.Thorough() {
		subs = subOffsets
		cp = cpus
	}
	var sn, pn []string
	for _, s := range sh {
		sn = append(sn, s.name)
	}
	for _, p := range pl {
		pn = append(pn, p.name)
	}
	c.Bound(bname(B, "shapes"), sn)
	c.Bound(bname(B, "placements"), pn)
	c.Bound(bname(B, "sub_offsets_world"), subs)
	c.Bound(bname(B, "cubes_per_unit"), cp)
	// cheapest first: placements are ordered by the number of blocks they straddle inside each shape
	for si, s := range sh {
		for subi, sub := range subs {
			if subi > 0 && si != 1 && si != 2 {
				continue // the extra sub-lattice offsets are explored for the two tie-prone boxes only
			}
			for _, cpu := range cp {
				for _, p := range pl {
					for _, cut := range cutoffs {
						if !c.Next() {
							continue
						}
						if expired(c) {
							return
						}
						var ctr [3]float64
						for a := 0; a < 3; a++ {
							ctr[a] = p.k[a]*float64(B)/cpu + sub[a]
						}
						one(c, Case{Via: s.via, Parts: s.at(ctr), Strength: s.strength, Margin: s.margin, CPU: cpu, Cutoff: cut, Entry: "canvas", Block: B, Place: p.name}, "block100/"+s.via)
					}
				}
			}
		}
	}
	runFar(c, B)
	runStaged(c, B)
	runScattered(c, B)
	runManyBlocks(c, B)
}

// runFar: fractional and fine resolutions, and blocks far from the origin (the block key and the
// 3-decimal vertex key are computed from absolute coordinates), for the first four shapes.
func runFar(c *core.Ctx, B int) {
	sh := shapes100(false)
	if len(sh) > 4 {
		sh = sh[:4]
	}
	cp := []float64{0.5, 2.5, 7}
	pl := []placeT{
		{"interior", [3]float64{0.5, 0.5, 0.5}},
		{"+x face", [3]float64{1, 0.5, 0.5}},
		{"far +1000 blocks, +y face", [3]float64{1000.5, 1, 0.5}},
		{"far -1000 blocks, all axes, -z face", [3]float64{-1000.5, -999.5, -1000}},
		{"far +30000 blocks in z, 0 x face", [3]float64{0, 0.5, 30000.5}},
	}
	var pn []string
	for _, p := range pl {
		pn = append(pn, p.name)
	}
	c.Bound(bname(B, "far.cubes_per_unit"), cp)
	c.Bound(bname(B, "far.placements"), pn)
	for _, s := range sh {
		for _, cpu := range append(cp, 1) {
			for pi, p := range pl {
				if cpu == 1 && pi < 2 {
					continue // resolution 1 near the origin is the main scope
				}
				for _, cut := range cutoffs {
					if !c.Next() {
						continue
					}
					if expired(c) {
						return
					}
					var ctr [3]float64
					for a := 0; a < 3; a++ {
						ctr[a] = p.k[a]*float64(B)/cpu + subOffsets[0][a]
					}
					one(c, Case{Via: s.via, Parts: s.at(ctr), Strength: s.strength, Margin: s.margin, CPU: cpu, Cutoff: cut, Entry: "canvas", Block: B, Place: p.name}, "block100-far/"+s.via)
				}
			}
		}
	}
}

// runScaled: every integer and half-integer lattice offset of the shape's centre over the blocks
// -1, 0, +1 (lattice coordinates -B .. 2B) in each axis.
func runScaled(c *core.Ctx, B int) {
	var origins [][3]int
	for _, x := range []int{2, B - 1, -1} {
		for _, y := range []int{2, B - 1, -1} {
			for _, z := range []int{2, B - 1, -1} {
				origins = append(origins, [3]int{x, y, z})
			}
		}
	}
	runTable(c, B, origins, cpus, cutoffs)
	sh := shapes6(c.Thorough())
	var offs []float64
	if c.Thorough() {
		for o := -float64(B); o < 2*float64(B); o += 0.5 {
			offs = append(offs, o)
		}
	} else {
		// the offsets next to every block face plus one mid-block position per block
		b := float64(B)
		for _, base := range []float64{-b, 0, b} {
			offs = append(offs, base, base+0.5, base+b/2, base+b-0.5)
		}
		offs = append(offs, 2*b-1)
	}
	var sn []string
	for _, s := range sh {
		sn = append(sn, s.name)
	}
	// a second scalar attribute on the canvas: the position surface must not notice it
	extras := []string{"same-field", "other-field-before", "other-field-after"}
	c.Bound(bname(B, "second_attribute"), extras)
	for _, s := range sh {
		for _, cpu := range []float64{1, 2} {
			for _, o := range [][3]float64{{2.5, 2.5, 2.5}, {5.5, 2.5, 2.5}, {5.5, 5.5, 5.5}, {-0.5, 2.5, 5.5}} {
				for _, ex := range extras {
					for _, cut := range cutoffs {
						if !c.Next() {
							continue
						}
						if expired(c) {
							return
						}
						ctr := [3]float64{o[0] / cpu, o[1] / cpu, o[2] / cpu}
						one(c, Case{Via: s.via, Parts: s.at(ctr), Strength: s.strength, Margin: s.margin, CPU: cpu, Cutoff: cut, Entry: "canvas", Block: B, Extra: ex}, fmt.Sprintf("block%d/second-attribute/%s", B, s.via))
					}
				}
			}
		}
	}
	runStaged(c, B)
	runScattered(c, B)
	runManyBlocks(c, B)
	c.Bound(bname(B, "shapes"), sn)
	c.Bound(bname(B, "centre_offsets_lattice_units_per_axis"), offs)
	c.Bound(bname(B, "cubes_per_unit"), cpus)
	for _, s := range sh {
		for _, cpu := range cpus {
			for _, ox := range offs {
				for _, oy := range offs {
					if !c.Next() {
						continue
					}
					if expired(c) {
						return
					}
					for _, oz := range offs {
						for _, cut := range cutoffs {
							ctr := [3]float64{ox / cpu, oy / cpu, oz / cpu}
							one(c, Case{Via: s.via, Parts: s.at(ctr), Strength: s.strength, Margin: s.margin, CPU: cpu, Cutoff: cut, Entry: "canvas", Block: B}, fmt.Sprintf("block%d/%s", B, s.via))
						}
					}
				}
			}
		}
	}
}

// runManyBlocks: long shapes that cross several storage blocks, marched with March and with
// MarchParallel on a machine limited to fewer processors than the canvas has blocks.
func runManyBlocks(c *core.Ctx, B int) {
	type long struct {
		name  string
		cpu   float64
		parts []Part
	}
	var ls []long
	if B >= 50 {
		ls = []long{
			{"capsule through 3 blocks", 10, []Part{{Kind: "capsule", C: [3]float64{-5, 5, 5}, R: 1, E: [3]float64{20, 0, 0}}}},
			{"capsule through 3 blocks, skew", 10, []Part{{Kind: "capsule", C: [3]float64{-5, 5.5, 4.5}, R: 1, E: [3]float64{20, 3, 6}}}},
		}
	} else {
		ls = []long{
			{"capsule through 4 blocks in x", 1, []Part{{Kind: "capsule", C: [3]float64{2.5, 2.5, 2.5}, R: 0.9, E: [3]float64{17, 0.5, 0}}}},
			{"capsule through 5 blocks in x across zero", 1, []Part{{Kind: "capsule", C: [3]float64{-8.5, 2.5, 2.5}, R: 0.9, E: [3]float64{23, 0, 0.5}}}},
			{"capsule through 7 blocks in z", 2, []Part{{Kind: "capsule", C: [3]float64{1.5, 1.5, 1.5}, R: 0.6, E: [3]float64{0, 0.5, 19}}}},
			{"box over 3x2 blocks", 1, []Part{{Kind: "box", C: [3]float64{9, 6, 3}, Size: [3]float64{13, 5, 2}}}},
			{"box over 3x3x2 blocks", 1, []Part{{Kind: "box", C: [3]float64{9, 9, 6}, Size: [3]float64{13, 13, 4}}}},
			{"diagonal capsule", 1, []Part{{Kind: "capsule", C: [3]float64{-3.5, -2.5, 1.5}, R: 0.9, E: [3]float64{14, 13, 9}}}},
		}
		// unions of many parts (CombineFields looks its parts up in a spatial index whose depth grows with their number)
		for _, n := range []int{8, 22, 23, 24, 40, 70, 200} {
			var parts []Part
			for i := 0; i < n; i++ {
				parts = append(parts, Part{Kind: "sphere", C: [3]float64{1.5 + 1.2*float64(i%35), 2.5 + 0.3*float64(i%3) + 3.5*float64(i/35), 2.5}, R: 0.9})
			}
			ls = append(ls, long{fmt.Sprintf("union of %d overlapping spheres", n), 1, parts})
		}
	}
	var names []string
	procs := []int{0, 2, 3, 4, 5}
	for _, l := range ls {
		names = append(names, l.name)
		for _, entry := range []string{"canvas", "canvas-parallel"} {
			for _, pr := range procs {
				if entry == "canvas" && pr != 0 {
					continue
				}
				for _, cut := range cutoffs {
					if !c.Next() {
						continue
					}
					if expired(c) {
						return
					}
					one(c, Case{Via: "marching", Parts: l.parts, Strength: 1, CPU: l.cpu, Cutoff: cut, Entry: entry, Block: B, Procs: pr}, fmt.Sprintf("block%d/many-blocks/%s", B, entry))
				}
			}
		}
	}
	c.Bound(bname(B, "many_blocks.shapes"), names)
	c.Bound(bname(B, "many_blocks.processors_for_MarchParallel"), procs)
}

var stages = []string{"AddField", "AddFieldParallel", "AddFieldParallel2"}

// runStaged: a canvas that is marched, added to, and marched again. The first sphere sits inside the
// block at the origin; the second one is placed in the same block, across each of its faces, wholly
// in a neighbouring block (one the canvas did not hold at the first march) and across 0 / -1.
func runStaged(c *core.Ctx, B int) {
	c.Bound(bname(B, "staged.writers_of_the_second_stage"), stages)
	type cfg struct {
		cpu, r float64
		a      [3]float64   // centre of the first sphere (world units)
		bs     [][3]float64 // centres of the second
	}
	var k cfg
	if B >= 50 {
		k = cfg{cpu: 1, r: 1.7, a: [3]float64{50.3, 50.2, 50.1}, bs: [][3]float64{
			{60, 50, 50}, {50, 40.5, 50}, {100.2, 50, 50}, {150, 50, 50}, {100.2, 100.1, 50}, {50, 50, 99.6}, {50, 50, 150},
			{-0.3, 50, 50}, {-50, 50, 50}, {50, -0.3, -0.4}, {150, 150, 150}}}
	} else {
		// block edge 6 cells = 3 units at 2 cubes per unit
		k = cfg{cpu: 2, r: 0.8, a: [3]float64{1.5, 1.5, 1.5}}
		for x := -4.5; x <= 7.5; x += 0.25 {
			for _, y := range []float64{1.5, 3.0, 4.5, -1.5} {
				for _, z := range []float64{1.5, 3.0} {
					k.bs = append(k.bs, [3]float64{x, y, z})
				}
			}
		}
	}
	n := 0
	for _, bc := range k.bs {
		// the two declared domains (the spheres' bounding cubes) at least two cells apart in one axis
		sep := 0.0
		for a := 0; a < 3; a++ {
			sep = math.Max(sep, math.Abs(bc[a]-k.a[a])-2*k.r)
		}
		if sep < 2/k.cpu {
			continue
		}
		n++
		for _, st := range stages {
			for _, cut := range cutoffs {
				if !c.Next() {
					continue
				}
				if expired(c) {
					return
				}
				parts := []Part{{Kind: "sphere", C: k.a, R: k.r}, {Kind: "sphere", C: bc, R: k.r}}
				one(c, Case{Via: "marching", Parts: parts, Strength: 1, CPU: k.cpu, Cutoff: cut, Entry: "canvas", Block: B, Stage: st}, fmt.Sprintf("block%d/staged/%s", B, st))
			}
		}
	}
	c.Bound(bname(B, "staged.second_sphere_centres"), n)
}

// runScattered: three small spheres, each added by a call of its own, centred inside a block or on its low face / edge (between two / four blocks),
// over 4x4 blocks around the origin: the storage blocks the canvas ends up with form L shapes, diagonals and rows with holes —
// sets that no single field (whose blocks form a box) produces — and every sphere is the first one
// (the owner of storage block 0) once.
func runScattered(c *core.Ctx, B int) {
	if B >= 50 {
		return // block-scaled build only: the real block edge makes every such canvas a multi-second march
	}
	// block edge 6 cells = 3 units at 2 cubes per unit; radius 0.9 cells; centres on a block's low
	// edge / face (local cell 0) or inside it (local cell 4), over the blocks -1..2 in x and y
	cpu, r := 2.0, 0.45
	var ctrs [][3]float64
	cells := []float64{-2, 0, 4, 6, 10, 12, 16}
	for _, x := range cells {
		for _, y := range cells {
			ctrs = append(ctrs, [3]float64{x / cpu, y / cpu, 1.5})
		}
	}
	far := func(a, b [3]float64) bool {
		sep := 0.0
		for i := 0; i < 3; i++ {
			sep = math.Max(sep, math.Abs(a[i]-b[i])-2*r)
		}
		return sep >= 2/cpu
	}
	n := 0
	for i := range ctrs {
		for j := i + 1; j < len(ctrs); j++ {
			for l := j + 1; l < len(ctrs); l++ {
				if !far(ctrs[i], ctrs[j]) || !far(ctrs[j], ctrs[l]) || !far(ctrs[i], ctrs[l]) {
					continue
				}
				for rot := 0; rot < 3; rot++ {
					n++
					if !c.Next() {
						continue
					}
					if expired(c) {
						return
					}
					ord := [][3]float64{ctrs[i], ctrs[j], ctrs[l]}
					ord = append(ord[rot:], ord[:rot]...)
					var parts []Part
					for _, ct := range ord {
						parts = append(parts, Part{Kind: "sphere", C: ct, R: r})
					}
					cut := cutoffs[n%len(cutoffs)]
					one(c, Case{Via: "marching", Parts: parts, Strength: 1, CPU: cpu, Cutoff: cut, Entry: "canvas", Block: B, Stage: "separately-unmarched"}, fmt.Sprintf("block%d/scattered-parts", B))
				}
			}
		}
	}
	c.Bound(bname(B, "scattered.three_spheres_added_one_by_one"), n)
}

// expired polls the harness deadline; core only looks at the clock every 256th poll, and one
// march can take seconds, so poll in bursts.
func expired(c *core.Ctx) bool {
	for i := 0; i < 256; i++ {
		if c.Expired() {
			return true
		}
	}
	return false
}

func bname(B int, s string) string { return fmt.Sprintf("block%d.%s", B, s) }

func site(cs Case) string {
	if cs.Entry == "field" {
		return "marching.Field.March"
	}
	if cs.Entry == "canvas-parallel" {
		return "marching.MarchingCanvas.MarchParallel"
	}
	return "marching.MarchingCanvas.March"
}

func march(cs Case, b builtField) modeling.Mesh {
	f := b.field
	if cs.Entry == "field" {
		return f.March(modeling.PositionAttribute, cs.CPU, cs.Cutoff)
	}
	cv := marching.NewMarchingCanvas(cs.CPU)
	if cs.Procs > 0 {
		defer runtime.GOMAXPROCS(runtime.GOMAXPROCS(cs.Procs))
	}
	if cs.Entry == "canvas-parallel" {
		cv.AddField(f)
		return cv.MarchParallel(cs.Cutoff)
	}
	if cs.Stage == "separately-unmarched" {
		// every part through a call of its own, in the order given: the canvas's set of storage blocks
		// is whatever the parts touched (not a box), and block 0 is the first part's low corner
		for _, part := range b.parts {
			cv.AddField(part)
		}
		return cv.March(cs.Cutoff)
	}
	if cs.Stage != "" {
		cv.AddField(b.parts[0])
		cv.March(cs.Cutoff) // a preview of the canvas so far
		rest := marching.CombineFields(b.parts[1:]...)
		switch cs.Stage {
		case "separately":
			for _, part := range b.parts[1:] {
				cv.AddField(part)
			}
		case "separately-unmarched":
			// handled below (no preview march): unreachable here
		case "AddField":
			cv.AddField(rest)
		case "AddFieldParallel":
			cv.AddFieldParallel(rest)
		case "AddFieldParallel2":
			cv.AddFieldParallel2(rest)
		default:
			panic("c09: unknown stage " + cs.Stage)
		}
		return cv.March(cs.Cutoff)
	}
	heat := func(v vector3.Float64) float64 { return 0.37 + 0.11*v.X() - 0.05*v.Y()*v.Z() }
	other := marching.Field{Domain: f.Domain, Float1Functions: map[string]sample.Vec3ToFloat{"Heat": heat}}
	switch cs.Extra {
	case "same-field":
		g := marching.Field{Domain: f.Domain, Float1Functions: map[string]sample.Vec3ToFloat{"Heat": heat}}
		for k, v := range f.Float1Functions {
			g.Float1Functions[k] = v
		}
		g.Float2Functions, g.Float3Functions = f.Float2Functions, f.Float3Functions
		cv.AddField(g)
	case "other-field-before":
		cv.AddField(other)
		cv.AddField(f)
	case "other-field-after":
		cv.AddField(f)
		cv.AddField(other)
	default:
		cv.AddField(f)
	}
	return cv.March(cs.Cutoff)
}

// one executes one march and applies the oracle.
func one(c *core.Ctx, cs Case, scope string) {
	var b builtField
	if o := core.Guard(func() { b = cs.build() }); o.Panicked {
		c.HarnessError("building the field of %+v panicked: %s", cs, o.Msg)
		return
	}
	pre, why := cs.precondition(b)
	alarmed := pre && cs.Entry != "field"
	if !pre {
		scope = "precondition-not-met"
		_ = why
	}
	lat := sampleLattice(cs)
	var m modeling.Mesh
	o := core.Guard(func() { m = march(cs, b) })
	c.Sample(scope, cs)
	violate := func(site, clause, class, detail string) {
		if !alarmed {
			return
		}
		eq := ""
		if cs.Block != 0 && cs.Block != 100 {
			// §3.6: the same placement relative to the block corner on the real constant (replayable with the plain binary)
			eq = " | block=100 equivalent " + caseJSON(translate(cs, 100))
		}
		c.Violate(core.Violation{Site: site, Clause: clause, Class: class, Detail: fmt.Sprintf("%s | case %s%s", detail, caseJSON(cs), eq), Case: cs})
	}
	if o.Panicked {
		st := site(cs)
		if o.Crash() {
			if tf := core.TopFrame(o.Stack); tf != "" {
				st = tf
			}
		}
		class := "surface-present"
		label := "panic"
		if lat.inside == 0 {
			class = "no-sample-below-threshold"
			label = "panic-on-empty"
		}
		c.Eval(scope, label)
		violate(st, clMesh, class, fmt.Sprintf("panic: %s (reference: %d samples below the threshold)", o.Msg, lat.inside))
		return
	}
	vd := judge(cs, m, lat)
	out := "ok"
	if vd.tris == 0 {
		out = "ok-empty"
	}
	for i, f := range vd.findings {
		if i == 0 {
			out = short(f)
		}
		violate(site(cs), f.clause, f.class, f.detail)
	}
	c.Eval(scope, out)
	if vd.tris > 0 {
		c.Nontrivial(caseJSON(cs))
	}
}

func short(f finding) string {
	switch f.clause {
	case clClosed:
		return f.class
	case clDegen:
		return "degenerate-face"
	case clOutward:
		return "volume-not-positive"
	case clNear:
		return "vertex-off-surface"
	case clPresent:
		return f.class
	}
	return "malformed"
}

func caseJSON(cs Case) string {
	b, _ := json.Marshal(cs)
	return string(b)
}

// translate moves a case enumerated for one block edge to the corresponding block corner of
// another (same position relative to the nearest block corner of the first part).
func translate(cs Case, to int) Case {
	if cs.Block == 0 || cs.Block == to {
		return cs
	}
	out := cs
	out.Parts = append([]Part{}, cs.Parts...)
	if cs.Via == "lattice" {
		for a := 0; a < 3; a++ {
			k := math.Round(float64(cs.Origin[a]) / float64(cs.Block))
			out.Origin[a] = cs.Origin[a] + int(k)*(to-cs.Block)
		}
		out.Block = to
		return out
	}
	if len(cs.Parts) == 0 {
		return cs
	}
	for a := 0; a < 3; a++ {
		for i := range out.Parts {
			j := 0
			if cs.Stage != "" {
				j = i // staged parts sit in blocks of their own: each keeps its place relative to its nearest block corner
			}
			o := cs.Parts[j].C[a] * cs.CPU
			k := math.Round(o / float64(cs.Block))
			out.Parts[i].C[a] += k * float64(to-cs.Block) / cs.CPU
		}
	}
	out.Block = to
	return out
}

func replay(c *core.Ctx) {
	log.SetOutput(io.Discard)
	var cs Case
	if err := json.Unmarshal(c.Replay, &cs); err != nil {
		c.HarnessError("replay: %v", err)
		return
	}
	if got := detectBlock(); got != 0 && cs.Block != 0 && got != cs.Block {
		// a case found by the scaled build replayed on the real constant (or vice versa)
		cs = translate(cs, got)
	}
	one(c, cs, "replay")
}
