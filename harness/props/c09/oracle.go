package c09

import (
	"fmt"
	"math"
	"sort"
	"strings"

	"github.com/EliCDavis/polyform/modeling"
)

const (
	clMesh     = "marching produces a triangle mesh (an empty below-threshold sample set yields an empty mesh, not a crash)"
	clClosed   = "closed, consistently oriented surface: every directed edge is matched by the opposite edge of exactly one neighbouring triangle"
	clDegen    = "no degenerate faces"
	clOutward  = "oriented outward so that the enclosed volume is positive"
	clNear     = "every vertex within one grid cell of the true isosurface"
	clPresent  = "the surface encloses the below-threshold samples (it is the isosurface, not a part of it)"
	tieEps     = 1e-6
	valueSlack = 1e-9
)

type soup struct {
	P   []V3
	Tri [][3]int
}

func readMesh(m modeling.Mesh) (soup, error) {
	var s soup
	if m.Topology() != modeling.TriangleTopology {
		return s, fmt.Errorf("topology is %v, not triangles", m.Topology())
	}
	idx := m.Indices()
	if idx.Len() == 0 {
		return s, nil
	}
	if !m.HasFloat3Attribute(modeling.PositionAttribute) {
		return s, fmt.Errorf("%d indices but no position attribute", idx.Len())
	}
	it := m.Float3Attribute(modeling.PositionAttribute)
	s.P = make([]V3, it.Len())
	for i := range s.P {
		s.P[i] = it.At(i)
	}
	if idx.Len()%3 != 0 {
		return s, fmt.Errorf("index count %d is not a multiple of 3", idx.Len())
	}
	for i := 0; i+2 < idx.Len(); i += 3 {
		t := [3]int{idx.At(i), idx.At(i + 1), idx.At(i + 2)}
		for _, v := range t {
			if v < 0 || v >= len(s.P) {
				return s, fmt.Errorf("index %d out of range (%d vertices)", v, len(s.P))
			}
		}
		s.Tri = append(s.Tri, t)
	}
	return s, nil
}

type dedge struct{ a, b int }

type pairing struct {
	repeated int
	open     []dedge
	multi    []dedge
}

func (p pairing) closed() bool { return len(p.open) == 0 && len(p.multi) == 0 }

// pairEdges: label[v] is the identity of vertex v (nil = the mesh's own index).
func pairEdges(tri [][3]int, label []int) pairing {
	var r pairing
	cnt := make(map[dedge]int, 3*len(tri))
	id := func(v int) int {
		if label == nil {
			return v
		}
		return label[v]
	}
	for _, t := range tri {
		a, b, c := id(t[0]), id(t[1]), id(t[2])
		if a == b || b == c || a == c {
			r.repeated++
			continue
		}
		cnt[dedge{a, b}]++
		cnt[dedge{b, c}]++
		cnt[dedge{c, a}]++
	}
	for e, n := range cnt {
		if n > 1 {
			r.multi = append(r.multi, e)
		}
		if cnt[dedge{e.b, e.a}] == 0 {
			r.open = append(r.open, e)
		}
	}
	less := func(s []dedge) func(i, j int) bool {
		return func(i, j int) bool {
			if s[i].a != s[j].a {
				return s[i].a < s[j].a
			}
			return s[i].b < s[j].b
		}
	}
	sort.Slice(r.open, less(r.open))
	sort.Slice(r.multi, less(r.multi))
	return r
}

// vgrid is a uniform hash grid over points (cell edge h).
type vgrid struct {
	h float64
	m map[[3]int64][]int
	p []V3
}

func newGrid(p []V3, h float64) *vgrid {
	g := &vgrid{h: h, m: make(map[[3]int64][]int, len(p)), p: p}
	for i, v := range p {
		k := g.key(v)
		g.m[k] = append(g.m[k], i)
	}
	return g
}

func (g *vgrid) key(v V3) [3]int64 {
	return [3]int64{int64(math.Floor(v.X() / g.h)), int64(math.Floor(v.Y() / g.h)), int64(math.Floor(v.Z() / g.h))}
}

// near calls f for every stored point within Chebyshev distance r (r <= h) of v.
func (g *vgrid) near(v V3, r float64, f func(i int)) {
	k := g.key(v)
	for dx := int64(-1); dx <= 1; dx++ {
		for dy := int64(-1); dy <= 1; dy++ {
			for dz := int64(-1); dz <= 1; dz++ {
				for _, j := range g.m[[3]int64{k[0] + dx, k[1] + dy, k[2] + dz}] {
					d := v.Sub(g.p[j])
					if math.Abs(d.X()) <= r && math.Abs(d.Y()) <= r && math.Abs(d.Z()) <= r {
						f(j)
					}
				}
			}
		}
	}
}

// twins: union-find labels after merging every pair of vertices closer than eps.
func twins(p []V3, eps float64) (label []int, merged int) {
	parent := make([]int, len(p))
	for i := range parent {
		parent[i] = i
	}
	var find func(int) int
	find = func(i int) int {
		for parent[i] != i {
			parent[i] = parent[parent[i]]
			i = parent[i]
		}
		return i
	}
	g := newGrid(p, eps)
	for i, v := range p {
		g.near(v, eps, func(j int) {
			if j == i {
				return
			}
			a, b := find(i), find(j)
			if a != b {
				if a < b {
					parent[b] = a
				} else {
					parent[a] = b
				}
				merged++
			}
		})
	}
	label = make([]int, len(p))
	for i := range p {
		label[i] = find(i)
	}
	return label, merged
}

// keyTwins labels vertices so that vertices whose weld keys (round(1000*coordinate)) differ by at
// most one in every axis share a label (transitively).
func keyTwins(p []V3) (label []int, merged int) {
	parent := make([]int, len(p))
	for i := range parent {
		parent[i] = i
	}
	var find func(int) int
	find = func(i int) int {
		for parent[i] != i {
			parent[i] = parent[parent[i]]
			i = parent[i]
		}
		return i
	}
	type key [3]int64
	keys := make([]key, len(p))
	at := map[key][]int{}
	for i, v := range p {
		keys[i] = key{int64(math.Round(v.X() * 1000)), int64(math.Round(v.Y() * 1000)), int64(math.Round(v.Z() * 1000))}
		at[keys[i]] = append(at[keys[i]], i)
	}
	for i, k := range keys {
		for dx := int64(-1); dx <= 1; dx++ {
			for dy := int64(-1); dy <= 1; dy++ {
				for dz := int64(-1); dz <= 1; dz++ {
					for _, j := range at[key{k[0] + dx, k[1] + dy, k[2] + dz}] {
						if j == i {
							continue
						}
						a, b := find(i), find(j)
						if a != b {
							if a < b {
								parent[b] = a
							} else {
								parent[a] = b
							}
							merged++
						}
					}
				}
			}
		}
	}
	label = make([]int, len(p))
	for i := range p {
		label[i] = find(i)
	}
	return label, merged
}

type finding struct {
	clause, class, detail string
}

type verdict struct {
	tris, verts int
	volume      float64
	findings    []finding
}

func fmtV(v V3) string { return fmt.Sprintf("(%.17g,%.17g,%.17g)", v.X(), v.Y(), v.Z()) }

// judge applies every clause to the returned mesh.
func judge(cs Case, m modeling.Mesh, lat latticeFacts) verdict {
	var vd verdict
	add := func(clause, class, detail string) {
		vd.findings = append(vd.findings, finding{clause, class, detail})
	}
	s, err := readMesh(m)
	if err != nil {
		add(clMesh, "malformed", err.Error())
		return vd
	}
	vd.tris, vd.verts = len(s.Tri), len(s.P)
	cell := 1 / cs.CPU

	// presence / emptiness, decided from the reference samples
	if len(s.Tri) == 0 {
		if lat.inside > 0 {
			add(clPresent, "empty-mesh", fmt.Sprintf("%d lattice samples are below the threshold (deepest %.6g below at %s) but the mesh has no triangle", lat.inside, lat.deepest, fmtV(lat.deepestAt)))
		}
		return vd
	}
	if lat.inside == 0 && lat.ambiguous == 0 {
		add(clMesh, "surface-from-nothing", fmt.Sprintf("no lattice sample is below the threshold, yet the mesh has %d triangles", len(s.Tri)))
	}
	for i, p := range s.P {
		if math.IsNaN(p.X()+p.Y()+p.Z()) || math.IsInf(p.X()+p.Y()+p.Z(), 0) {
			add(clNear, "non-finite-vertex", fmt.Sprintf("vertex %d = %v", i, p))
			return vd
		}
	}

	// closed + consistently oriented, on the mesh's own vertex identities
	pr := pairEdges(s.Tri, nil)
	if !pr.closed() {
		// Deterministic classifier of the one known mechanism: the final weld keys vertices by
		// round(1000*coordinate); two copies of one vertex that differ in the last bits can land in
		// neighbouring keys when the coordinate sits on a rounding tie. The class is decided from
		// the keys only (they do not depend on the order in which the blocks were appended):
		// "rounding-tie-crack" iff every unmatched edge touches a vertex that has a neighbour-key
		// twin and merging all neighbour-key twins closes the surface. Any other crack keeps the
		// class "crack".
		class := "crack"
		label, merged := keyTwins(s.P)
		if merged > 0 {
			size := map[int]int{}
			for _, l := range label {
				size[l]++
			}
			every := true
			for _, e := range append(append([]dedge{}, pr.open...), pr.multi...) {
				if size[label[e.a]] < 2 && size[label[e.b]] < 2 {
					every = false
					break
				}
			}
			if every && pairEdges(s.Tri, label).closed() {
				class = "rounding-tie-crack"
			}
		}
		var ex []string
		for _, e := range pr.open {
			ex = append(ex, "open "+fmtV(s.P[e.a])+"->"+fmtV(s.P[e.b]))
		}
		for _, e := range pr.multi {
			ex = append(ex, "used-twice "+fmtV(s.P[e.a])+"->"+fmtV(s.P[e.b]))
		}
		sort.Strings(ex)
		if len(ex) > 4 {
			ex = ex[:4]
		}
		add(clClosed, class, fmt.Sprintf("%d directed edges without opposite, %d directed edges used more than once (%d triangles, %d vertices); %s",
			len(pr.open), len(pr.multi), len(s.Tri), len(s.P), strings.Join(ex, "; ")))
	}

	// degenerate faces
	zero := 0
	firstZero := ""
	for _, t := range s.Tri {
		a, b, c := s.P[t[0]], s.P[t[1]], s.P[t[2]]
		if t[0] == t[1] || t[1] == t[2] || t[0] == t[2] || !(b.Sub(a).Cross(c.Sub(a)).Length()/2 > 1e-12*cell*cell) {
			zero++
			if firstZero == "" {
				firstZero = fmtV(a) + " " + fmtV(b) + " " + fmtV(c)
			}
		}
	}
	if zero > 0 && pr.closed() {
		add(clDegen, "zero-area-or-repeated-vertex", fmt.Sprintf("%d of %d triangles are degenerate; first: %s", zero, len(s.Tri), firstZero))
	}

	// outward: positive signed volume
	// (summed about a vertex of the mesh, not about the origin: for a closed surface the value does not
	// depend on the reference point, the rounding error does — at coordinates of 2e5 the origin-based
	// sum of a unit-sized solid has no correct digit left)
	vol := 0.
	if len(s.Tri) > 0 {
		ref := s.P[s.Tri[0][0]]
		for _, t := range s.Tri {
			a, b, c := s.P[t[0]].Sub(ref), s.P[t[1]].Sub(ref), s.P[t[2]].Sub(ref)
			vol += a.Dot(b.Cross(c)) / 6
		}
	}
	vd.volume = vol
	if !(vol > 0) && pr.closed() {
		add(clOutward, "volume-not-positive", fmt.Sprintf("signed volume %.9g over %d triangles", vol, len(s.Tri)))
	}

	// every referenced vertex within one cell of the isosurface: |g(v) - level| <= cell, g 1-Lipschitz
	lvl := cs.level()
	used := make([]bool, len(s.P))
	for _, t := range s.Tri {
		used[t[0]], used[t[1]], used[t[2]] = true, true, true
	}
	worst, wi, nfar := 0., -1, 0
	var cross []V3
	if cs.Via == "lattice" {
		cross, _ = cs.crossings()
	}
	for i, p := range s.P {
		if !used[i] {
			continue
		}
		var d float64
		if cs.Via == "lattice" {
			// any point of the level set inside a cell is within sqrt(3) cells of one of that cell's
			// edge crossings, so a vertex within one cell of the level set is within (1+sqrt 3) cells
			// of a crossing; rescaled so that the common test "d <= cell" applies
			d = math.Inf(1)
			for _, x := range cross {
				d = math.Min(d, p.Distance(x))
			}
			d /= 1 + math.Sqrt(3)
		} else {
			d = math.Abs(refDist(cs.Parts, p) - lvl)
		}
		if !(d <= cell+valueSlack) {
			nfar++
			if !(d <= worst) {
				worst, wi = d, i
			}
		}
	}
	if nfar > 0 {
		add(clNear, "vertex-off-surface", fmt.Sprintf("%d of %d vertices are farther than one cell (%.6g) from the isosurface; worst %s is %.6g away", nfar, len(s.P), cell, fmtV(s.P[wi]), worst))
	}

	// presence: every clearly-below-threshold sample that is not shadowed by another part has the surface within reach
	if len(lat.probes) > 0 {
		var ref []V3
		for i, p := range s.P {
			if used[i] {
				ref = append(ref, p)
			}
		}
		missing, first := 0, ""
		for _, pb := range lat.probes {
			reach := 2*pb.depth + 3*cell
			best := math.Inf(1)
			for _, v := range ref {
				if d := v.Distance(pb.at); d < best {
					best = d
				}
			}
			if !(best <= reach) {
				missing++
				if first == "" {
					first = fmt.Sprintf("sample %s is %.6g below the threshold, nearest mesh vertex is %.6g away (reach %.6g)", fmtV(pb.at), pb.depth, best, reach)
				}
			}
		}
		if missing > 0 {
			add(clPresent, "component-missing", fmt.Sprintf("%d probe samples have no surface within reach; %s", missing, first))
		}
	}
	return vd
}

// ---- reference sampling of the lattice (what the canvas is supposed to see) ----

type probe struct {
	at    V3
	depth float64
}

type latticeFacts struct {
	inside    int // samples with g < level - slack
	ambiguous int // samples with |g - level| <= slack
	deepest   float64
	deepestAt V3
	probes    []probe
	blocks    int // storage blocks touched by the below-threshold samples
}

// sampleLattice evaluates the reference distance on the lattice points i/cpu around the shapes.
func sampleLattice(cs Case) latticeFacts {
	var lf latticeFacts
	lvl := cs.level()
	cell := 1 / cs.CPU
	blocks := map[[3]int]bool{}
	B := float64(cs.Block)
	if B == 0 {
		B = 100
	}
	if cs.Via == "lattice" {
		_, ins := cs.crossings()
		lf.inside = len(ins)
		for _, q := range ins {
			// every inside corner has three outside neighbours one cell away: the surface passes
			// within one cell of it (reach = 2*depth + 3 cells with depth 0)
			lf.probes = append(lf.probes, probe{q, 0})
			lf.deepest, lf.deepestAt = 1, q
			blocks[[3]int{int(math.Floor(q.X() * cs.CPU / B)), int(math.Floor(q.Y() * cs.CPU / B)), int(math.Floor(q.Z() * cs.CPU / B))}] = true
		}
		lf.blocks = len(blocks)
		return lf
	}
	for pi, p := range cs.Parts {
		lo, hi, empty := p.region(lvl)
		if empty {
			continue
		}
		var a0, a1 [3]int
		for a := 0; a < 3; a++ {
			a0[a] = int(math.Floor(lo[a]*cs.CPU)) - 1
			a1[a] = int(math.Ceil(hi[a]*cs.CPU)) + 1
		}
		// one probe per part: its deepest sample that no other part comes near
		var best probe
		best.depth = -1
		for x := a0[0]; x <= a1[0]; x++ {
			for y := a0[1]; y <= a1[1]; y++ {
				for z := a0[2]; z <= a1[2]; z++ {
					q := v3([3]float64{float64(x) / cs.CPU, float64(y) / cs.CPU, float64(z) / cs.CPU})
					own := p.dist(q)
					// count each lattice point once: by the first part that contains it
					first := true
					for pj := 0; pj < pi; pj++ {
						if cs.Parts[pj].dist(q) < lvl+valueSlack {
							first = false
						}
					}
					if !first {
						continue
					}
					switch {
					case own < lvl-valueSlack:
						lf.inside++
						blocks[[3]int{int(math.Floor(float64(x) / B)), int(math.Floor(float64(y) / B)), int(math.Floor(float64(z) / B))}] = true
						depth := lvl - own
						if depth > lf.deepest {
							lf.deepest, lf.deepestAt = depth, q
						}
						clear := true
						for pj, o := range cs.Parts {
							if pj != pi && !(o.dist(q)-lvl > 2*depth+3*cell) {
								clear = false
							}
						}
						if clear && depth > best.depth {
							best = probe{q, depth}
						}
					case own <= lvl+valueSlack:
						lf.ambiguous++
					}
				}
			}
		}
		if best.depth > 0 {
			lf.probes = append(lf.probes, best)
		}
	}
	lf.blocks = len(blocks)
	return lf
}
