package c09

import (
	"fmt"
	"math"

	"github.com/EliCDavis/polyform/math/geometry"
	"github.com/EliCDavis/polyform/math/sample"
	"github.com/EliCDavis/polyform/math/sdf"
	"github.com/EliCDavis/polyform/modeling"
	"github.com/EliCDavis/polyform/modeling/marching"
	"github.com/EliCDavis/vector/vector3"
)

type V3 = vector3.Float64

func v3(a [3]float64) V3 { return vector3.New(a[0], a[1], a[2]) }

// Part is one analytic shape. All lengths in world units.
type Part struct {
	Kind string     `json:"kind"` // sphere | box | capsule
	C    [3]float64 `json:"c"`    // centre (capsule: start point)
	R    float64    `json:"r,omitempty"`
	Size [3]float64 `json:"size,omitempty"` // box: full edge lengths
	E    [3]float64 `json:"e,omitempty"`    // capsule: end point minus start point
}

// Case is one march (replayable).
type Case struct {
	// Via: "marching" = marching.Sphere/Box/Line (+ CombineFields for several parts);
	//      "sdf" = a raw Field{Domain, sdf function} whose domain is the region's box plus Margin.
	Via      string  `json:"via"`
	Parts    []Part  `json:"parts"`
	Strength float64 `json:"strength,omitempty"` // marching: the constructors' strength (field = strength * sdf)
	Margin   float64 `json:"margin,omitempty"`   // sdf: declared domain = bounding box of the shapes + Margin on every side
	CPU      float64 `json:"cpu"`
	Cutoff   float64 `json:"cutoff"`
	// Via "lattice": the field is the trilinear interpolant of lattice samples that are -1 on the
	// corners of one unit cube selected by the bits of Config (bit b = corner (b&1, b>>1&1, b>>2&1)
	// relative to Origin, lattice coordinates) and +1 everywhere else: all 256 sign configurations.
	Config int    `json:"config,omitempty"`
	Origin [3]int `json:"origin,omitempty"`
	Entry  string `json:"entry"` // canvas | field
	Block  int    `json:"block"` // block edge the placement was enumerated for (100 real, 6 scaled build)
	Place  string `json:"place,omitempty"`
	// Extra: a second scalar attribute on the same canvas — "same-field" (a further Float1Functions entry
	// of the marched field), "other-field-before" / "other-field-after" (a separate field carrying only
	// that attribute, added before / after). The marched surface is that of the position attribute alone.
	Extra string `json:"extra,omitempty"`
	// Stage: the canvas is used in two stages — the first part is added with AddField and the canvas
	// marched (a preview), then the remaining parts are added as a field of their own with the named
	// writer (AddField | AddFieldParallel | AddFieldParallel2) and the canvas is marched again; the
	// second march is the one judged. The parts' domains are at least two cells apart, so that the
	// canvas holds exactly their union.
	Stage string `json:"stage,omitempty"`
	// Procs > 0: the number of processors the run is limited to (runtime.GOMAXPROCS) while marching —
	// entry "canvas-parallel" (MarchParallel) with more storage blocks than processors.
	Procs int `json:"procs,omitempty"`
}

// ---- reference distance functions (plain Go, written from the textbook definitions) ----

func (p Part) dist(q V3) float64 {
	c := v3(p.C)
	switch p.Kind {
	case "sphere":
		dx, dy, dz := q.X()-c.X(), q.Y()-c.Y(), q.Z()-c.Z()
		return math.Sqrt(dx*dx+dy*dy+dz*dz) - p.R
	case "box":
		qx := math.Abs(q.X()-c.X()) - p.Size[0]/2
		qy := math.Abs(q.Y()-c.Y()) - p.Size[1]/2
		qz := math.Abs(q.Z()-c.Z()) - p.Size[2]/2
		ox, oy, oz := math.Max(qx, 0), math.Max(qy, 0), math.Max(qz, 0)
		return math.Sqrt(ox*ox+oy*oy+oz*oz) + math.Min(math.Max(qx, math.Max(qy, qz)), 0)
	case "capsule":
		ex, ey, ez := p.E[0], p.E[1], p.E[2]
		px, py, pz := q.X()-c.X(), q.Y()-c.Y(), q.Z()-c.Z()
		t := 0.
		if l2 := ex*ex + ey*ey + ez*ez; l2 > 0 {
			t = math.Max(0, math.Min(1, (px*ex+py*ey+pz*ez)/l2))
		}
		dx, dy, dz := px-t*ex, py-t*ey, pz-t*ez
		return math.Sqrt(dx*dx+dy*dy+dz*dz) - p.R
	}
	return math.NaN()
}

// hull: bounding box of the shape itself (level 0).
func (p Part) hull() (lo, hi [3]float64) {
	for a := 0; a < 3; a++ {
		switch p.Kind {
		case "sphere":
			lo[a], hi[a] = p.C[a]-p.R, p.C[a]+p.R
		case "box":
			lo[a], hi[a] = p.C[a]-p.Size[a]/2, p.C[a]+p.Size[a]/2
		case "capsule":
			lo[a], hi[a] = math.Min(p.C[a], p.C[a]+p.E[a])-p.R, math.Max(p.C[a], p.C[a]+p.E[a])+p.R
		}
	}
	return
}

// region: bounding box of {dist < level} (level <= 0); empty=true when that set is empty.
func (p Part) region(level float64) (lo, hi [3]float64, empty bool) {
	lo, hi = p.hull()
	for a := 0; a < 3; a++ {
		lo[a] -= level
		hi[a] += level
		if !(lo[a] < hi[a]) {
			empty = true
		}
	}
	return
}

// thick: a lower bound of the region's thickness (used only to pick readable scopes, not by the oracle)

func refDist(parts []Part, q V3) float64 {
	d := math.Inf(1)
	for _, p := range parts {
		d = math.Min(d, p.dist(q))
	}
	return d
}

// ---- the library side: build the Field under test ----

func (cs Case) strength() float64 {
	if cs.Via == "marching" && cs.Strength != 0 {
		return cs.Strength
	}
	return 1
}

// level of the reference distance that corresponds to the cutoff of the (scaled) library field.
func (cs Case) level() float64 { return cs.Cutoff / cs.strength() }

type builtField struct {
	parts   []marching.Field // via "marching": one field per part
	field   marching.Field
	domains []geometry.AABB // declared domain per part (marching) or one for all (sdf)
}

func (cs Case) build() builtField {
	var b builtField
	switch cs.Via {
	case "marching":
		var fs []marching.Field
		for _, p := range cs.Parts {
			var f marching.Field
			switch p.Kind {
			case "sphere":
				f = marching.Sphere(v3(p.C), p.R, cs.strength())
			case "box":
				f = marching.Box(v3(p.C), v3(p.Size), cs.strength())
			case "capsule":
				f = marching.Line(v3(p.C), v3(p.C).Add(v3(p.E)), p.R, cs.strength())
			default:
				panic("c09: unknown part " + p.Kind)
			}
			fs = append(fs, f)
			b.domains = append(b.domains, f.Domain)
		}
		b.parts = fs
		b.field = marching.CombineFields(fs...)
	case "sdf":
		var fns []sample.Vec3ToFloat
		lo, hi := [3]float64{math.Inf(1), math.Inf(1), math.Inf(1)}, [3]float64{math.Inf(-1), math.Inf(-1), math.Inf(-1)}
		for _, p := range cs.Parts {
			switch p.Kind {
			case "sphere":
				fns = append(fns, sdf.Sphere(v3(p.C), p.R))
			case "box":
				fns = append(fns, sdf.Box(v3(p.C), v3(p.Size)))
			case "capsule":
				fns = append(fns, sdf.Line(v3(p.C), v3(p.C).Add(v3(p.E)), p.R))
			default:
				panic("c09: unknown part " + p.Kind)
			}
			l, h := p.hull()
			for a := 0; a < 3; a++ {
				lo[a], hi[a] = math.Min(lo[a], l[a]), math.Max(hi[a], h[a])
			}
		}
		var ctr, size [3]float64
		for a := 0; a < 3; a++ {
			ctr[a] = (lo[a] + hi[a]) / 2
			size[a] = (hi[a] - lo[a]) + 2*cs.Margin
		}
		dom := geometry.NewAABB(v3(ctr), v3(size))
		b.domains = []geometry.AABB{dom}
		b.field = marching.Field{Domain: dom, Float1Functions: map[string]sample.Vec3ToFloat{modeling.PositionAttribute: sdf.Union(fns...)}}
	case "lattice":
		o := cs.Origin
		ctr := [3]float64{(float64(o[0]) + 0.5) / cs.CPU, (float64(o[1]) + 0.5) / cs.CPU, (float64(o[2]) + 0.5) / cs.CPU}
		dom := geometry.NewAABB(v3(ctr), vector3.Fill(3/cs.CPU))
		b.domains = []geometry.AABB{dom}
		b.field = marching.Field{Domain: dom, Float1Functions: map[string]sample.Vec3ToFloat{modeling.PositionAttribute: cs.trilinear}}
	default:
		panic("c09: unknown via " + cs.Via)
	}
	return b
}

// ---- the lattice family ----

func (cs Case) latticeInside(i, j, k int) bool {
	di, dj, dk := i-cs.Origin[0], j-cs.Origin[1], k-cs.Origin[2]
	if di < 0 || di > 1 || dj < 0 || dj > 1 || dk < 0 || dk > 1 {
		return false
	}
	return cs.Config&(1<<(di|dj<<1|dk<<2)) != 0
}

func (cs Case) latticeValue(i, j, k int) float64 {
	if cs.latticeInside(i, j, k) {
		return -1
	}
	return 1
}

// trilinear interpolant of the lattice values (continuous; equals the lattice value at lattice points).
func (cs Case) trilinear(p V3) float64 {
	qx, qy, qz := p.X()*cs.CPU, p.Y()*cs.CPU, p.Z()*cs.CPU
	fx, fy, fz := math.Floor(qx), math.Floor(qy), math.Floor(qz)
	tx, ty, tz := qx-fx, qy-fy, qz-fz
	i, j, k := int(fx), int(fy), int(fz)
	v := 0.
	for c := 0; c < 8; c++ {
		dx, dy, dz := c&1, c>>1&1, c>>2&1
		w := 1.
		if dx == 1 {
			w *= tx
		} else {
			w *= 1 - tx
		}
		if dy == 1 {
			w *= ty
		} else {
			w *= 1 - ty
		}
		if dz == 1 {
			w *= tz
		} else {
			w *= 1 - tz
		}
		if w != 0 {
			v += w * cs.latticeValue(i+dx, j+dy, k+dz)
		}
	}
	return v
}

// crossings: the points where the interpolant's level set crosses lattice edges (world units).
func (cs Case) crossings() (pts []V3, insideCorners []V3) {
	t := (cs.Cutoff + 1) / 2 // from the inside end (-1) towards the outside end (+1)
	for c := 0; c < 8; c++ {
		if cs.Config&(1<<c) == 0 {
			continue
		}
		i, j, k := cs.Origin[0]+(c&1), cs.Origin[1]+(c>>1&1), cs.Origin[2]+(c>>2&1)
		insideCorners = append(insideCorners, v3([3]float64{float64(i) / cs.CPU, float64(j) / cs.CPU, float64(k) / cs.CPU}))
		for _, d := range [][3]int{{1, 0, 0}, {-1, 0, 0}, {0, 1, 0}, {0, -1, 0}, {0, 0, 1}, {0, 0, -1}} {
			if cs.latticeInside(i+d[0], j+d[1], k+d[2]) {
				continue
			}
			pts = append(pts, v3([3]float64{(float64(i) + t*float64(d[0])) / cs.CPU, (float64(j) + t*float64(d[1])) / cs.CPU, (float64(k) + t*float64(d[2])) / cs.CPU}))
		}
	}
	return
}

// precondition: the below-threshold region lies strictly inside the declared domain, read as
// {f < cutoff} ⊆ interior(domain): the open region may touch the domain's faces from inside but no
// below-threshold point lies on or beyond them. Decided exactly (no tolerance) from the domain the
// library declared and the reference region box; a case that fails it is run as reported-only.
func (cs Case) precondition(b builtField) (ok bool, why string) {
	if cs.Via == "lattice" {
		// below-threshold points lie less than one cell from the cube's corners; the declared domain
		// reaches one full cell beyond the cube on every side
		return true, ""
	}
	lvl := cs.level()
	for i, p := range cs.Parts {
		lo, hi, empty := p.region(lvl)
		if empty {
			continue
		}
		dom := b.domains[0]
		if cs.Via == "marching" {
			dom = b.domains[i]
		}
		dmin, dmax := dom.Min(), dom.Max()
		dl, dh := [3]float64{dmin.X(), dmin.Y(), dmin.Z()}, [3]float64{dmax.X(), dmax.Y(), dmax.Z()}
		for a := 0; a < 3; a++ {
			if lo[a] < dl[a] || hi[a] > dh[a] {
				return false, fmt.Sprintf("part %d region [%v,%v] exceeds its declared domain [%v,%v] on axis %d", i, lo[a], hi[a], dl[a], dh[a], a)
			}
		}
	}
	return true, ""
}
