// Package meshopslib is the operation alphabet shared by the C02 (well-formedness closure) and
// C03 (operation contracts) explorers: every mesh operation is a named table row with a JSON-able
// parameter record, so that the explorers, the reference models and the replayers all speak about
// exactly the same call.
package meshopslib

import (
	"fmt"
	"image"
	"image/color"
	"math"

	"github.com/EliCDavis/polyform/math/geometry"
	"github.com/EliCDavis/polyform/math/quaternion"
	"github.com/EliCDavis/polyform/math/trs"
	"github.com/EliCDavis/polyform/modeling"
	"github.com/EliCDavis/polyform/modeling/meshops"
	"github.com/EliCDavis/polyform/modeling/repeat"
	"github.com/EliCDavis/vector/vector2"
	"github.com/EliCDavis/vector/vector3"
	"github.com/EliCDavis/vector/vector4"

	"verif/harness/meshlib"
)

// Params is the parameter record of one call. Which fields an operation reads is documented at
// its table row; unused fields stay zero and are omitted from the JSON.
type Params struct {
	V      []float64     `json:"v,omitempty"`      // amount / translation / scale vector
	O      []float64     `json:"o,omitempty"`      // origin / axis
	Q      []float64     `json:"q,omitempty"`      // unit quaternion x,y,z,w
	N      int           `json:"n,omitempty"`      // decimals / iterations / pool size / enum
	F      float64       `json:"f,omitempty"`      // min area / distance / factor / amount / threshold
	Attr   string        `json:"attr,omitempty"`   // attribute operated on
	Attr2  string        `json:"attr2,omitempty"`  // second attribute (normal attribute)
	Mode   string        `json:"mode,omitempty"`   // predicate kind / variant label
	Mask   int           `json:"mask,omitempty"`   // vertex bit mask of a "mask" predicate
	Box    []float64     `json:"box,omitempty"`    // centre xyz, size xyz
	TRS    [][]float64   `json:"trs,omitempty"`    // list of t(3) q(4) s(3)
	Other  *meshlib.Spec `json:"other,omitempty"`  // second operand
	Idx    []int         `json:"idx,omitempty"`    // explicit index list (SetIndices)
	Len    int           `json:"len,omitempty"`    // explicit data length (attribute setters)
	Mats   []int         `json:"mats,omitempty"`   // material range primitive counts
	MatIDs []int         `json:"matids,omitempty"` // per range: 0=A 1=B 2=C -1=nil pointer
}

func (p Params) String() string {
	s := ""
	add := func(k string, v any) { s += fmt.Sprintf(" %s=%v", k, v) }
	if p.V != nil {
		add("v", p.V)
	}
	if p.O != nil {
		add("o", p.O)
	}
	if p.Q != nil {
		add("q", p.Q)
	}
	if p.N != 0 {
		add("n", p.N)
	}
	if p.F != 0 {
		add("f", p.F)
	}
	if p.Attr != "" {
		add("attr", p.Attr)
	}
	if p.Attr2 != "" {
		add("attr2", p.Attr2)
	}
	if p.Mode != "" {
		add("mode", p.Mode)
	}
	if p.Mask != 0 {
		add("mask", p.Mask)
	}
	if p.Box != nil {
		add("box", p.Box)
	}
	if p.TRS != nil {
		add("trs", p.TRS)
	}
	if p.Other != nil {
		add("other", p.Other.String())
	}
	if p.Idx != nil {
		add("idx", p.Idx)
	}
	if p.Len != 0 {
		add("len", p.Len)
	}
	if p.Mats != nil {
		add("mats", p.Mats)
	}
	if p.MatIDs != nil {
		add("matids", p.MatIDs)
	}
	return s
}

// Op is one row of the alphabet.
type Op struct {
	Name string // unique id, e.g. "meshops.Unweld", "meshops.UnweldTransformer", "Mesh.Translate"
	Site string // library function named in violations of this operation's contract
	// Variants lists the parameter records explored for the given input (first = the default used
	// by the pair explorer). It may depend on the input's shape (primitive count, indices).
	Variants func(s Shape, thorough bool) []Params
	// Apply runs the real library code. It may panic; Transformer forms return the error result.
	Apply func(m modeling.Mesh, p Params) ([]modeling.Mesh, error)
	// Outside names why (input, params) lies outside the alarmed C02 scope ("" = inside): low-level
	// builder steps (SetIndices, attribute setters, ClearAttributeData) handed arguments that are
	// themselves inconsistent with the mesh.
	Outside func(s Shape, p Params) string
	// Builder marks low-level setters whose result is whatever the caller passes in.
	Builder bool
}

// Shape is what the parameter variants of an operation may depend on: the layout of the input mesh.
// It is derived either from a Spec (first operation) or from a snapshot (later operations).
type Shape struct {
	Topo  string   // "tri" | "point" | "other"
	L     int      // vertex count
	Idx   []int    // index array
	Attrs []string // attribute names present
	Spec  *meshlib.Spec
}

// positionVariant is true for the members of S_mesh that differ from the all-distinct member only
// in where their vertices lie. Operations that never look at positions (material split, filters on
// non-position attributes) run their full parameter list on the all-distinct member and only the
// default parameters on the position variants.
func (s Shape) positionVariant() bool { return s.Spec != nil && s.Spec.Pos != nil }

func (s Shape) PrimCount() int { return len(s.Idx) / meshlib.IndexSize(s.Topo) }

func (s Shape) Has(a string) bool {
	for _, x := range s.Attrs {
		if x == a {
			return true
		}
	}
	return false
}

func ShapeOfSpec(s meshlib.Spec) Shape {
	sh := Shape{Topo: s.Topo, L: L(s), Idx: s.Idx, Spec: &s}
	if sh.L > 0 {
		sh.Attrs = meshlib.Mixes[s.Mix]
	}
	return sh
}

func ShapeOfSnap(s meshlib.Snap) Shape {
	sh := Shape{Topo: meshlib.TopoName(s.Topo), L: s.ALen, Idx: s.Idx}
	for w := 0; w < 4; w++ {
		sh.Attrs = append(sh.Attrs, s.Names[w]...)
	}
	return sh
}

// Class is the deterministic input class used in violation identities: topology, whether the index
// array is the identity / something else / empty, and whether a position attribute exists.
func (s Shape) Class() string {
	pos := "with-position"
	if !s.Has(P) {
		pos = "no-position"
	}
	return s.LayoutClass() + "/" + pos
}

// LayoutClass is the topology + index-pattern part of the class.
func (s Shape) LayoutClass() string {
	ic := IndexClass(s.Idx, s.L)
	if ic != "no-primitives" && ic != "identity-indices" {
		ic = "non-identity-indices"
	}
	return s.Topo + "/" + ic
}

// ---------------------------------------------------------------------------------------------
// parameter value sets
// ---------------------------------------------------------------------------------------------

var sq = math.Sqrt(0.5)

// unit quaternions x,y,z,w
var (
	Q90Y     = []float64{0, sq, 0, sq}
	QGeneric = func() []float64 {
		n := math.Sqrt(1 + 4 + 9 + 16)
		return []float64{1 / n, 2 / n, -3 / n, 4 / n}
	}()
	QIdent = []float64{0, 0, 0, 1}
)

var (
	TRS1 = []float64{1, 0, 0, 0, 0, 0, 1, 1, 1, 1}
	TRS2 = []float64{0, 2, 0, Q90Y[0], Q90Y[1], Q90Y[2], Q90Y[3], 2, 1, 0.5}
	TRS3 = []float64{-0.5, 0.25, 4, QGeneric[0], QGeneric[1], QGeneric[2], QGeneric[3], 1, -2, 3}
)

var MatC = modeling.Material{Name: "matC"}

func Material(id int) *modeling.Material {
	switch id {
	case 0:
		return &meshlib.MatA
	case 1:
		return &meshlib.MatB
	case 2:
		return &MatC
	case 3:
		return &MatA2
	}
	return nil
}

// MatA2 is a different material that happens to carry the same name as MatA (every
// modeling.DefaultColorMaterial is called "DefaultDiffuse"; Material{} literals have an empty name):
// materials are distinguished by identity, not by name.
var MatA2 = modeling.Material{Name: meshlib.MatA.Name, SpecularHighlight: 7}

// MaterialKey identifies a material by name *and* content (the split hands out copies, so pointer
// identity cannot be followed through it).
func MaterialKey(id int) string {
	if m := Material(id); m != nil {
		return KeyOf(m)
	}
	return ""
}

func KeyOf(m *modeling.Material) string {
	if m == nil {
		return ""
	}
	return fmt.Sprintf("%s/specular=%v", m.Name, m.SpecularHighlight)
}

func MaterialName(id int) string {
	if m := Material(id); m != nil {
		return m.Name
	}
	return ""
}

func V3(a []float64) vector3.Float64 { return vector3.New(a[0], a[1], a[2]) }
func V2(a []float64) vector2.Float64 { return vector2.New(a[0], a[1]) }
func Quat(a []float64) quaternion.Quaternion {
	return quaternion.New(vector3.New(a[0], a[1], a[2]), a[3])
}
func MkTRS(a []float64) trs.TRS {
	return trs.New(V3(a[0:3]), Quat(a[3:7]), V3(a[7:10]))
}

// AppendOperands are the second operands of Append in the op × mesh grids.
var AppendOperands = []meshlib.Spec{
	{Topo: "tri", V: 0, Idx: []int{}, Mix: "none"},
	{Topo: "tri", V: 3, Idx: []int{0, 1, 2}, Mix: "P"},
	{Topo: "tri", V: 2, Idx: []int{1, 0, 1}, Mix: "all", Mats: []int{1}},
	{Topo: "tri", V: 3, Idx: []int{2, 1, 0, 0, 0, 1}, Mix: "PN", Pos: []int{0, 1, 2}},
	{Topo: "point", V: 2, Idx: []int{1, 0}, Mix: "P"},
	{Topo: "point", V: 3, Idx: []int{2, 2}, Mix: "all", Mats: []int{1, 1}},
}

// Pred is the vertex predicate of a filter variant. Every predicate looks at the first component of
// the attribute value only (attribute values of S_mesh are vertex-unique in that component, except
// Position, which uses the threshold form).
func Pred(p Params) func(first float64) bool {
	switch p.Mode {
	case "all":
		return func(float64) bool { return true }
	case "none":
		return func(float64) bool { return false }
	case "lt":
		return func(x float64) bool { return x < p.F }
	case "mask":
		var keep []float64
		for i := 0; i < 8; i++ {
			if p.Mask&(1<<i) != 0 {
				keep = append(keep, meshlib.AttrValue(p.Attr, i)[0])
			}
		}
		return func(x float64) bool {
			for _, k := range keep {
				if x == k {
					return true
				}
			}
			return false
		}
	}
	panic("meshopslib: unknown predicate " + p.Mode)
}

// SetData gives the fresh data written by the attribute setters (vertex-unique, exactly
// representable so that reference and library agree bit for bit).
func SetData(attr string, i int) [4]float64 {
	s := 0.
	for _, c := range attr {
		s += float64(c)
	}
	b := math.Mod(s, 5)
	f := float64(i)
	return [4]float64{100 + b + f, 200 - f*0.5, 300 + b*0.25 + f*f, 400 - f}
}

// ModifyF is the user function handed to ModifyFloatNAttribute (component-wise, exact).
func ModifyF(i int, x float64) float64 { return x*2 + float64(i) }

var lutImage = func() image.Image {
	img := image.NewRGBA(image.Rect(0, 0, 256, 16))
	for x := 0; x < 256; x++ {
		for y := 0; y < 16; y++ {
			img.Set(x, y, color.RGBA{uint8(x), uint8(y * 16), uint8((x / 16) * 16), 255})
		}
	}
	return img
}()

// SlicePlane is the plane x = 0.5 with normal +x.
func SlicePlane() geometry.Plane {
	return geometry.NewPlaneFromPoints(vector3.New(0.5, 0., 0.), vector3.New(0.5, 1., 0.), vector3.New(0.5, 0., 1.))
}

// ---------------------------------------------------------------------------------------------
// helpers to build rows
// ---------------------------------------------------------------------------------------------

func fixed(ps ...Params) func(Shape, bool) []Params {
	return func(Shape, bool) []Params { return ps }
}

func tiered(quick []Params, extra []Params) func(Shape, bool) []Params {
	all := append(append([]Params{}, quick...), extra...)
	return func(_ Shape, thorough bool) []Params {
		if thorough {
			return all
		}
		return quick
	}
}

func fn(name, site string, variants func(Shape, bool) []Params, f func(m modeling.Mesh, p Params) modeling.Mesh) Op {
	return Op{Name: name, Site: site, Variants: variants, Apply: func(m modeling.Mesh, p Params) ([]modeling.Mesh, error) {
		return []modeling.Mesh{f(m, p)}, nil
	}}
}

func tr(name, site string, variants func(Shape, bool) []Params, mk func(p Params) modeling.Transformer) Op {
	return Op{Name: name, Site: site, Variants: variants, Apply: func(m modeling.Mesh, p Params) ([]modeling.Mesh, error) {
		out, err := mk(p).Transform(m)
		if err != nil {
			return nil, err
		}
		return []modeling.Mesh{out}, nil
	}}
}

// L is the vertex count of the mesh built from the spec (0 when the mix has no attributes).
func L(s meshlib.Spec) int {
	if len(meshlib.Mixes[s.Mix]) == 0 {
		return 0
	}
	return s.V
}

func idxFits(topo string, n int) bool { return n%meshlib.IndexSize(topo) == 0 }

// ---------------------------------------------------------------------------------------------
// the alphabet
// ---------------------------------------------------------------------------------------------

const (
	P  = modeling.PositionAttribute
	Nr = modeling.NormalAttribute
	UV = modeling.TexCoordAttribute
	Ms = "Mass"
	Jt = modeling.JointAttribute
)

func filterVariants(attr string, position bool) func(Shape, bool) []Params {
	return func(s Shape, thorough bool) []Params {
		if position {
			return []Params{{Attr: attr, Mode: "lt", F: 0.5}, {Attr: attr, Mode: "all"}, {Attr: attr, Mode: "none"}, {Attr: attr, Mode: "lt", F: 1.5}}
		}
		out := []Params{{Attr: attr, Mode: "mask", Mask: 0b0101}, {Attr: attr, Mode: "all"}, {Attr: attr, Mode: "none"}}
		if s.positionVariant() || s.L > 10 {
			return out // (size-ladder meshes: the three default predicates only)
		}
		n := 1 << uint(s.L)
		if s.Topo == "tri" && !thorough && n > 8 {
			n = 8
		}
		for m := 1; m < n-1; m++ {
			if m == 0b0101 {
				continue
			}
			out = append(out, Params{Attr: attr, Mode: "mask", Mask: m})
		}
		return out
	}
}

func f1pred(p Params) func(float64) bool { return Pred(p) }
func f2pred(p Params) func(vector2.Float64) bool {
	f := Pred(p)
	return func(v vector2.Float64) bool { return f(v.X()) }
}
func f3pred(p Params) func(vector3.Float64) bool {
	f := Pred(p)
	return func(v vector3.Float64) bool { return f(v.X()) }
}
func f4pred(p Params) func(vector4.Float64) bool {
	f := Pred(p)
	return func(v vector4.Float64) bool { return f(v.X()) }
}

// CropBoxes: no S_mesh coordinate lies on (or within 0.05 of) a face of any box.
var CropBoxes = [][]float64{
	{0, 0, 0, 1, 1, 1},       // contains palette point 0 only
	{0.5, 0.5, 1, 2, 2, 3},   // contains the whole palette and distinct vertices 0,1
	{1, 0, 0, 0.5, 0.5, 0.5}, // palette point 1 only
	{50, 50, 50, 1, 1, 1},    // nothing
	{0, 0, 0, 100, 100, 100}, // everything
}

func box(b []float64) geometry.AABB { return geometry.NewAABB(V3(b[0:3]), V3(b[3:6])) }

func cropVariants(attr string) func(Shape, bool) []Params {
	return func(Shape, bool) []Params {
		var out []Params
		for _, b := range CropBoxes {
			out = append(out, Params{Attr: attr, Box: b})
		}
		return out
	}
}

func setIndicesVariants(s Shape, thorough bool) []Params {
	n := len(s.Idx)
	rev := make([]int, n)
	for i := range rev {
		rev[i] = s.Idx[n-1-i]
	}
	out := []Params{{Mode: "reverse", Idx: rev}, {Mode: "empty", Idx: []int{}}}
	l := s.L
	if l > 0 {
		size := meshlib.IndexSize(s.Topo)
		last := make([]int, size)
		for i := range last {
			last[i] = l - 1
		}
		out = append(out, Params{Mode: "last-vertex", Idx: last})
		grow := append(append([]int{}, s.Idx...), last...)
		out = append(out, Params{Mode: "grow", Idx: grow})
	}
	// inadmissible arguments (reported only)
	out = append(out, Params{Mode: "out-of-range", Idx: append(append([]int{}, s.Idx...), l, l, l)})
	if meshlib.IndexSize(s.Topo) > 1 {
		out = append(out, Params{Mode: "misfit", Idx: append(append([]int{}, s.Idx...), 0)})
	}
	return out
}

func setIndicesOutside(s Shape, p Params) string {
	l := s.L
	for _, i := range p.Idx {
		if i < 0 || i >= l {
			return "caller passes an index that refers to no vertex"
		}
	}
	if !idxFits(s.Topo, len(p.Idx)) {
		return "caller passes an index count that does not fit the topology"
	}
	return ""
}

// attribute setters: Len is the data length handed in (-1 encodes "same as the mesh").
func setAttrVariants(attrs ...string) func(Shape, bool) []Params {
	return func(s Shape, thorough bool) []Params {
		l := s.L
		var out []Params
		for _, a := range attrs {
			out = append(out, Params{Attr: a, Len: l, Mode: "same-length"})
		}
		out = append(out, Params{Attr: attrs[0], Len: l + 1, Mode: "longer"})
		out = append(out, Params{Attr: attrs[len(attrs)-1], Len: 0, Mode: "empty"})
		return out
	}
}

// setAttrOutside models the attribute table after the setter: lengths must agree and cover the indices.
func setAttrOutside(s Shape, p Params) string {
	l := s.L
	others := 0
	for _, a := range s.Attrs {
		if a != p.Attr {
			others++
		}
	}
	newL := p.Len
	if others > 0 {
		if p.Len != 0 && p.Len != l {
			return "caller passes attribute data whose length differs from the mesh's"
		}
		newL = l
	}
	for _, i := range s.Idx {
		if i >= newL {
			return "caller removes or shortens the only attribute array while indices refer to it"
		}
	}
	return ""
}

func mkF3(attr string, n int) []vector3.Float64 {
	d := make([]vector3.Float64, n)
	for i := range d {
		v := SetData(attr, i)
		d[i] = vector3.New(v[0], v[1], v[2])
	}
	return d
}
func mkF2(attr string, n int) []vector2.Float64 {
	d := make([]vector2.Float64, n)
	for i := range d {
		v := SetData(attr, i)
		d[i] = vector2.New(v[0], v[1])
	}
	return d
}
func mkF1(attr string, n int) []float64 {
	d := make([]float64, n)
	for i := range d {
		d[i] = SetData(attr, i)[0]
	}
	return d
}
func mkF4(attr string, n int) []vector4.Float64 {
	d := make([]vector4.Float64, n)
	for i := range d {
		v := SetData(attr, i)
		d[i] = vector4.New(v[0], v[1], v[2], v[3])
	}
	return d
}

// Materials builds the material list of a Params record.
func Materials(p Params) []modeling.MeshMaterial {
	ms := make([]modeling.MeshMaterial, len(p.Mats))
	for i, n := range p.Mats {
		ms[i] = modeling.MeshMaterial{PrimitiveCount: n, Material: Material(p.MatIDs[i])}
	}
	return ms
}

func compositions(total, parts int) [][]int {
	if parts == 1 {
		return [][]int{{total}}
	}
	var out [][]int
	for first := 0; first <= total; first++ {
		for _, rest := range compositions(total-first, parts-1) {
			out = append(out, append([]int{first}, rest...))
		}
	}
	return out
}

// splitVariants: every way of covering the primitives by 1..3 consecutive material ranges (empty
// ranges included) × every assignment of materials {A,B} (thorough: {A,B,C}) to the ranges, plus
// inadmissible layouts (nil material pointer, ranges that do not cover the primitives).
func splitVariants(s Shape, thorough bool) []Params {
	p := s.PrimCount()
	nm := 2
	if thorough {
		nm = 3
	}
	var out []Params
	// default first (used by pairs): A then B, split in the middle
	out = append(out, Params{Mats: []int{p - p/2, p / 2}, MatIDs: []int{0, 1}})
	if s.positionVariant() {
		return out
	}
	if p > 12 {
		// size-ladder meshes: a handful of layouts instead of every composition — three ranges with a
		// material that returns, an empty middle range, one range, a same-named different material
		return append(out,
			Params{Mats: []int{p / 3, p / 3, p - 2*(p/3)}, MatIDs: []int{0, 1, 0}},
			Params{Mats: []int{p / 2, 0, p - p/2}, MatIDs: []int{1, 0, 1}},
			Params{Mats: []int{p}, MatIDs: []int{1}},
			Params{Mats: []int{1, p - 2, 1}, MatIDs: []int{0, 3, 1}})
	}
	for k := 1; k <= 3; k++ {
		for _, counts := range compositions(p, k) {
			// material menu: A, B, (C), and A2 = a different material with A's name
			menu := []int{0, 1, 3}
			if thorough {
				menu = []int{0, 1, 2, 3}
			}
			_ = nm
			for _, pick := range meshlib.Tuples(len(menu), k) {
				ids := make([]int, k)
				for i, x := range pick {
					ids[i] = menu[x]
				}
				if k == 2 && counts[0] == p-p/2 && ids[0] == 0 && ids[1] == 1 {
					continue
				}
				out = append(out, Params{Mats: counts, MatIDs: ids})
			}
		}
	}
	out = append(out, Params{Mats: []int{}, MatIDs: []int{}, Mode: "no-materials"})
	out = append(out, Params{Mats: []int{p - p/2, p / 2}, MatIDs: []int{0, -1}, Mode: "nil-material"})
	out = append(out, Params{Mats: []int{p - p/2, p / 2}, MatIDs: []int{-1, 0}, Mode: "nil-material"})
	if p > 0 {
		out = append(out, Params{Mats: []int{p - 1, 0}, MatIDs: []int{0, 1}, Mode: "ranges-short"})
	}
	out = append(out, Params{Mats: []int{p, 1}, MatIDs: []int{0, 1}, Mode: "ranges-long"})
	return out
}

// SplitPre: the documented precondition of SplitOnUniqueMaterials' bookkeeping: non-nil materials and
// ranges that cover the primitives exactly.
func SplitPre(prims int, p Params) string {
	sum := 0
	for i, n := range p.Mats {
		sum += n
		if p.MatIDs[i] < 0 {
			return "material range with a nil material pointer"
		}
	}
	if len(p.Mats) >= 2 && sum != prims {
		return "material ranges do not cover the primitives exactly"
	}
	return ""
}

func repeatVariants(Shape, bool) []Params {
	return []Params{
		{TRS: [][]float64{TRS1, TRS2}},
		{TRS: [][]float64{}},
		{TRS: [][]float64{TRS3}},
		{TRS: [][]float64{TRS2, TRS3, TRS1}},
	}
}

func trsList(p Params) []trs.TRS {
	out := make([]trs.TRS, len(p.TRS))
	for i, t := range p.TRS {
		out[i] = MkTRS(t)
	}
	return out
}

func appendVariants(s Shape, thorough bool) []Params {
	out := make([]Params, 0, len(AppendOperands)+1)
	for i := range AppendOperands {
		o := AppendOperands[i]
		out = append(out, Params{Other: &o})
	}
	// self-append (a fresh build of the same spec)
	if s.Spec != nil {
		self := *s.Spec
		out = append(out, Params{Other: &self, Mode: "self"})
	}
	// default for pairs: a same-topology operand
	if s.Topo == "point" {
		out[0], out[4] = out[4], out[0]
	} else {
		out[0], out[2] = out[2], out[0]
	}
	return out
}

var (
	amounts = []Params{{V: []float64{1, 2, 3}}, {V: []float64{0.5, -0.25, 0}}}
	scales  = []Params{{V: []float64{2, 0.5, -1}}, {V: []float64{0, 1, 1}}}
	rots    = []Params{{Q: Q90Y}, {Q: QGeneric}, {Q: QIdent}}
)

func withAttr(ps []Params, attrs ...string) []Params {
	var out []Params
	for _, a := range attrs {
		for _, p := range ps {
			p.Attr = a
			out = append(out, p)
		}
	}
	return out
}

// Alphabet is the complete operation table, in a fixed order.
var Alphabet = buildAlphabet()

// ByName looks an operation up.
func ByName(name string) (Op, bool) {
	for _, o := range Alphabet {
		if o.Name == name {
			return o, true
		}
	}
	return Op{}, false
}

func buildAlphabet() []Op {
	var ops []Op
	add := func(o Op) { ops = append(ops, o) }

	// ---- Mesh methods ----
	add(Op{Name: "Mesh.Append", Site: "modeling.Mesh.Append", Variants: appendVariants,
		Apply: func(m modeling.Mesh, p Params) ([]modeling.Mesh, error) {
			return []modeling.Mesh{m.Append(p.Other.Build())}, nil
		}})
	add(fn("Mesh.Translate", "modeling.Mesh.Translate", fixed(amounts...), func(m modeling.Mesh, p Params) modeling.Mesh { return m.Translate(V3(p.V)) }))
	add(fn("Mesh.Scale", "modeling.Mesh.Scale", fixed(scales...), func(m modeling.Mesh, p Params) modeling.Mesh { return m.Scale(V3(p.V)) }))
	add(fn("Mesh.Rotate", "modeling.Mesh.Rotate", fixed(rots...), func(m modeling.Mesh, p Params) modeling.Mesh { return m.Rotate(Quat(p.Q)) }))
	add(fn("Mesh.ApplyTRS", "modeling.Mesh.ApplyTRS", fixed(Params{TRS: [][]float64{TRS2}}, Params{TRS: [][]float64{TRS3}}, Params{TRS: [][]float64{TRS1}}),
		func(m modeling.Mesh, p Params) modeling.Mesh { return m.ApplyTRS(MkTRS(p.TRS[0])) }))
	add(fn("Mesh.WeldByFloat3Attribute", "modeling.Mesh.WeldByFloat3Attribute",
		fixed(Params{Attr: P, N: 3}, Params{Attr: P, N: 0}, Params{Attr: P, N: 1}, Params{Attr: Nr, N: 1}),
		func(m modeling.Mesh, p Params) modeling.Mesh { return m.WeldByFloat3Attribute(p.Attr, p.N) }))
	add(fn("Mesh.ToPointCloud", "modeling.Mesh.ToPointCloud", fixed(Params{}), func(m modeling.Mesh, p Params) modeling.Mesh { return m.ToPointCloud() }))
	o := fn("Mesh.SetIndices", "modeling.Mesh.SetIndices", setIndicesVariants, func(m modeling.Mesh, p Params) modeling.Mesh {
		return m.SetIndices(append([]int{}, p.Idx...))
	})
	o.Outside, o.Builder = setIndicesOutside, true
	add(o)
	o = fn("Mesh.SetFloat3Attribute", "modeling.Mesh.SetFloat3Attribute", setAttrVariants("Extra3", P, Nr), func(m modeling.Mesh, p Params) modeling.Mesh {
		return m.SetFloat3Attribute(p.Attr, mkF3(p.Attr, p.Len))
	})
	o.Outside, o.Builder = setAttrOutside, true
	add(o)
	o = fn("Mesh.SetFloat2Attribute", "modeling.Mesh.SetFloat2Attribute", setAttrVariants("Extra2", UV), func(m modeling.Mesh, p Params) modeling.Mesh {
		return m.SetFloat2Attribute(p.Attr, mkF2(p.Attr, p.Len))
	})
	o.Outside, o.Builder = setAttrOutside, true
	add(o)
	o = fn("Mesh.SetFloat1Attribute", "modeling.Mesh.SetFloat1Attribute", setAttrVariants("Extra1", Ms), func(m modeling.Mesh, p Params) modeling.Mesh {
		return m.SetFloat1Attribute(p.Attr, mkF1(p.Attr, p.Len))
	})
	o.Outside, o.Builder = setAttrOutside, true
	add(o)
	o = fn("Mesh.SetFloat4Attribute", "modeling.Mesh.SetFloat4Attribute", setAttrVariants("Extra4", Jt), func(m modeling.Mesh, p Params) modeling.Mesh {
		return m.SetFloat4Attribute(p.Attr, mkF4(p.Attr, p.Len))
	})
	o.Outside, o.Builder = setAttrOutside, true
	add(o)
	add(fn("Mesh.CopyFloat3Attribute", "modeling.Mesh.CopyFloat3Attribute", func(s Shape, _ bool) []Params {
		// a source mesh with the same vertex count, all-distinct positions and a normal
		src := meshlib.Spec{Topo: "point", V: s.L, Idx: []int{}, Mix: "PN"}
		return []Params{{Attr: P, Other: &src}, {Attr: Nr, Other: &src}}
	}, func(m modeling.Mesh, p Params) modeling.Mesh { return m.CopyFloat3Attribute(p.Other.Build(), p.Attr) }))
	add(fn("Mesh.ModifyFloat3Attribute", "modeling.Mesh.ModifyFloat3Attribute", fixed(Params{Attr: P}, Params{Attr: Nr}), func(m modeling.Mesh, p Params) modeling.Mesh {
		return m.ModifyFloat3Attribute(p.Attr, func(i int, v vector3.Float64) vector3.Float64 {
			return vector3.New(ModifyF(i, v.X()), ModifyF(i, v.Y()), ModifyF(i, v.Z()))
		})
	}))
	add(fn("Mesh.ModifyFloat3AttributeParallelWithPoolSize", "modeling.Mesh.ModifyFloat3AttributeParallelWithPoolSize", fixed(Params{Attr: P, N: 3}, Params{Attr: P, N: 2}, Params{Attr: P, N: 0}), func(m modeling.Mesh, p Params) modeling.Mesh {
		return m.ModifyFloat3AttributeParallelWithPoolSize(p.Attr, p.N, func(i int, v vector3.Float64) vector3.Float64 {
			return vector3.New(ModifyF(i, v.X()), ModifyF(i, v.Y()), ModifyF(i, v.Z()))
		})
	}))
	add(fn("Mesh.ModifyFloat2Attribute", "modeling.Mesh.ModifyFloat2Attribute", fixed(Params{Attr: UV}), func(m modeling.Mesh, p Params) modeling.Mesh {
		return m.ModifyFloat2Attribute(p.Attr, func(i int, v vector2.Float64) vector2.Float64 {
			return vector2.New(ModifyF(i, v.X()), ModifyF(i, v.Y()))
		})
	}))
	add(fn("Mesh.ModifyFloat1Attribute", "modeling.Mesh.ModifyFloat1Attribute", fixed(Params{Attr: Ms}), func(m modeling.Mesh, p Params) modeling.Mesh {
		return m.ModifyFloat1Attribute(p.Attr, func(i int, v float64) float64 { return ModifyF(i, v) })
	}))
	add(fn("Mesh.SetMaterial", "modeling.Mesh.SetMaterial", fixed(Params{MatIDs: []int{2}}), func(m modeling.Mesh, p Params) modeling.Mesh {
		return m.SetMaterial(*Material(p.MatIDs[0]))
	}))
	add(fn("Mesh.SetMaterials", "modeling.Mesh.SetMaterials", func(s Shape, _ bool) []Params {
		n := s.PrimCount()
		return []Params{{Mats: []int{n - n/2, n / 2}, MatIDs: []int{0, 1}}, {Mats: []int{}, MatIDs: []int{}}}
	}, func(m modeling.Mesh, p Params) modeling.Mesh { return m.SetMaterials(Materials(p)) }))
	o = fn("Mesh.ClearAttributeData", "modeling.Mesh.ClearAttributeData", fixed(Params{}), func(m modeling.Mesh, p Params) modeling.Mesh { return m.ClearAttributeData() })
	o.Builder = true
	o.Outside = func(s Shape, p Params) string {
		if len(s.Idx) > 0 {
			return "builder step: clears every attribute array and keeps the indices for data the caller sets next"
		}
		return ""
	}
	add(o)

	// ---- meshops: layout / connectivity ----
	add(fn("meshops.Unweld", "meshops.Unweld", fixed(Params{}), func(m modeling.Mesh, p Params) modeling.Mesh { return meshops.Unweld(m) }))
	add(tr("meshops.UnweldTransformer", "meshops.Unweld", fixed(Params{}), func(p Params) modeling.Transformer { return meshops.UnweldTransformer{} }))
	add(fn("meshops.RemovedUnreferencedVertices", "meshops.RemovedUnreferencedVertices", fixed(Params{}), func(m modeling.Mesh, p Params) modeling.Mesh { return meshops.RemovedUnreferencedVertices(m) }))
	add(tr("meshops.RemovedUnreferencedVerticesTransformer", "meshops.RemovedUnreferencedVertices", fixed(Params{}), func(p Params) modeling.Transformer {
		return meshops.RemovedUnreferencedVerticesTransformer{}
	}))
	nullFaces := []Params{{Attr: P, F: 0}, {Attr: P, F: 0.25}, {Attr: P, F: 0.75}, {Attr: Nr, F: 0}}
	add(fn("meshops.RemoveNullFaces3D", "meshops.RemoveNullFaces3D", fixed(nullFaces...), func(m modeling.Mesh, p Params) modeling.Mesh {
		return meshops.RemoveNullFaces3D(m, p.Attr, p.F)
	}))
	add(tr("meshops.RemoveNullFaces3DTransformer", "meshops.RemoveNullFaces3D", fixed(Params{Attr: "", F: 0}, Params{Attr: Nr, F: 0.25}), func(p Params) modeling.Transformer {
		return meshops.RemoveNullFaces3DTransformer{Attribute: p.Attr, MinArea: p.F}
	}))
	add(fn("meshops.FlipTriangleWinding", "meshops.FlipTriangleWinding", fixed(Params{}), func(m modeling.Mesh, p Params) modeling.Mesh { return meshops.FlipTriangleWinding(m) }))
	add(tr("meshops.FlipTriangleWindingTransformer", "meshops.FlipTriangleWinding", fixed(Params{}), func(p Params) modeling.Transformer {
		return meshops.FlipTriangleWindingTransformer{}
	}))
	add(Op{Name: "meshops.SplitOnUniqueMaterials", Site: "meshops.SplitOnUniqueMaterials", Variants: splitVariants,
		Apply: func(m modeling.Mesh, p Params) ([]modeling.Mesh, error) {
			return meshops.SplitOnUniqueMaterials(m.SetMaterials(Materials(p))), nil
		},
		Outside: func(s Shape, p Params) string { return SplitPre(s.PrimCount(), p) }})

	add(fn("meshops.FilterFloat1", "meshops.FilterFloat1", filterVariants(Ms, false), func(m modeling.Mesh, p Params) modeling.Mesh {
		return meshops.FilterFloat1(m, p.Attr, f1pred(p))
	}))
	add(fn("meshops.FilterFloat2", "meshops.FilterFloat2", filterVariants(UV, false), func(m modeling.Mesh, p Params) modeling.Mesh {
		return meshops.FilterFloat2(m, p.Attr, f2pred(p))
	}))
	add(Op{Name: "meshops.FilterFloat3", Site: "meshops.FilterFloat3", Variants: func(s Shape, th bool) []Params {
		return append(filterVariants(P, true)(s, th), filterVariants(Nr, false)(s, th)[:3]...)
	}, Apply: func(m modeling.Mesh, p Params) ([]modeling.Mesh, error) {
		return []modeling.Mesh{meshops.FilterFloat3(m, p.Attr, f3pred(p))}, nil
	}})
	add(fn("meshops.FilterFloat4", "meshops.FilterFloat4", filterVariants(Jt, false), func(m modeling.Mesh, p Params) modeling.Mesh {
		return meshops.FilterFloat4(m, p.Attr, f4pred(p))
	}))
	short := func(f func(Shape, bool) []Params) func(Shape, bool) []Params {
		return func(s Shape, th bool) []Params { return f(s, th)[:3] }
	}
	add(tr("meshops.FilterFloat1Transformer", "meshops.FilterFloat1", short(filterVariants(Ms, false)), func(p Params) modeling.Transformer {
		return meshops.FilterFloat1Transformer{Attribute: p.Attr, Filter: f1pred(p)}
	}))
	add(tr("meshops.FilterFloat2Transformer", "meshops.FilterFloat2", short(filterVariants(UV, false)), func(p Params) modeling.Transformer {
		return meshops.FilterFloat2Transformer{Attribute: p.Attr, Filter: f2pred(p)}
	}))
	add(tr("meshops.FilterFloat3Transformer", "meshops.FilterFloat3", short(filterVariants(P, true)), func(p Params) modeling.Transformer {
		return meshops.FilterFloat3Transformer{Attribute: p.Attr, Filter: f3pred(p)}
	}))
	add(tr("meshops.FilterFloat4Transformer", "meshops.FilterFloat4", short(filterVariants(Jt, false)), func(p Params) modeling.Transformer {
		return meshops.FilterFloat4Transformer{Attribute: p.Attr, Filter: f4pred(p)}
	}))
	add(fn("meshops.CropFloat3Attribute", "meshops.CropFloat3Attribute", cropVariants(P), func(m modeling.Mesh, p Params) modeling.Mesh {
		return meshops.CropFloat3Attribute(m, p.Attr, box(p.Box))
	}))
	add(tr("meshops.CropAttribute3DTransformer", "meshops.CropFloat3Attribute", func(Shape, bool) []Params {
		return []Params{{Attr: "", Box: CropBoxes[1]}, {Attr: Nr, Box: CropBoxes[4]}}
	}, func(p Params) modeling.Transformer {
		return meshops.CropAttribute3DTransformer{Attribute: p.Attr, BoundingBox: box(p.Box)}
	}))
	add(Op{Name: "meshops.SliceByPlaneWithAttribute", Site: "meshops.SliceByPlaneWithAttribute", Variants: fixed(Params{Attr: P}),
		Apply: func(m modeling.Mesh, p Params) ([]modeling.Mesh, error) {
			a, b := meshops.SliceByPlaneWithAttribute(m, SlicePlane(), p.Attr)
			return []modeling.Mesh{a, b}, nil
		}})
	add(tr("meshops.SliceByPlaneTransformer", "meshops.SliceByPlaneWithAttribute", fixed(Params{Attr: "", N: 0}, Params{Attr: "", N: 1}), func(p Params) modeling.Transformer {
		return meshops.SliceByPlaneTransformer{Attribute: p.Attr, SliceToKeep: meshops.SliceByPlaneTransformerSide(p.N), Plane: SlicePlane()}
	}))

	// ---- meshops: one attribute transformed ----
	scale3 := []Params{{Attr: P, O: []float64{0, 0, 0}, V: []float64{2, 0.5, -1}}, {Attr: P, O: []float64{1, -2, 0.5}, V: []float64{0, 1, 4}}, {Attr: Nr, O: []float64{0.5, 0.5, 0.5}, V: []float64{-1, -1, -1}}}
	add(fn("meshops.ScaleAttribute3D", "meshops.ScaleAttribute3D", fixed(scale3...), func(m modeling.Mesh, p Params) modeling.Mesh {
		return meshops.ScaleAttribute3D(m, p.Attr, V3(p.O), V3(p.V))
	}))
	add(tr("meshops.ScaleAttribute3DTransformer", "meshops.ScaleAttribute3D", fixed(Params{Attr: "", O: []float64{1, -2, 0.5}, V: []float64{2, 0.5, -1}}, Params{Attr: Nr, O: []float64{0, 0, 0}, V: []float64{2, 2, 2}}), func(p Params) modeling.Transformer {
		return meshops.ScaleAttribute3DTransformer{Attribute: p.Attr, Origin: V3(p.O), Amount: V3(p.V)}
	}))
	add(fn("meshops.ScaleAttribute2D", "meshops.ScaleAttribute2D", fixed(Params{Attr: UV, O: []float64{0, 0}, V: []float64{2, -0.5}}, Params{Attr: UV, O: []float64{0.5, 0.25}, V: []float64{0, 3}}), func(m modeling.Mesh, p Params) modeling.Mesh {
		return meshops.ScaleAttribute2D(m, p.Attr, V2(p.O), V2(p.V))
	}))
	add(tr("meshops.ScaleAttribute2DTransformer", "meshops.ScaleAttribute2D", fixed(Params{Attr: "", O: []float64{0.5, 0.25}, V: []float64{2, -0.5}}), func(p Params) modeling.Transformer {
		return meshops.ScaleAttribute2DTransformer{Attribute: p.Attr, Origin: V2(p.O), Amount: V2(p.V)}
	}))
	add(fn("meshops.ScaleAttributeAlongNormal", "meshops.ScaleAttributeAlongNormal", fixed(Params{Attr: P, Attr2: Nr, F: 0.5}, Params{Attr: Nr, Attr2: P, F: -2}, Params{Attr: P, Attr2: P, F: 1}), func(m modeling.Mesh, p Params) modeling.Mesh {
		return meshops.ScaleAttributeAlongNormal(m, p.Attr, p.Attr2, p.F)
	}))
	add(tr("meshops.ScaleAttributeAlongNormalTransformer", "meshops.ScaleAttributeAlongNormalTransformer.Transform", fixed(Params{Attr: "", Attr2: "", F: 0.5}, Params{Attr: Nr, Attr2: P, F: 2}), func(p Params) modeling.Transformer {
		return meshops.ScaleAttributeAlongNormalTransformer{AttributeToScale: p.Attr, NormalAttribute: p.Attr2, Amount: p.F}
	}))
	add(fn("meshops.TranslateAttribute3D", "meshops.TranslateAttribute3D", fixed(withAttr(amounts, P, Nr)...), func(m modeling.Mesh, p Params) modeling.Mesh {
		return meshops.TranslateAttribute3D(m, p.Attr, V3(p.V))
	}))
	add(tr("meshops.TranslateAttribute3DTransformer", "meshops.TranslateAttribute3D", fixed(Params{Attr: "", V: []float64{1, 2, 3}}, Params{Attr: Nr, V: []float64{0.5, -0.25, 0}}), func(p Params) modeling.Transformer {
		return meshops.TranslateAttribute3DTransformer{Attribute: p.Attr, Amount: V3(p.V)}
	}))
	add(fn("meshops.RotateAttribute3D", "meshops.RotateAttribute3D", fixed(withAttr(rots[:2], P, Nr)...), func(m modeling.Mesh, p Params) modeling.Mesh {
		return meshops.RotateAttribute3D(m, p.Attr, Quat(p.Q))
	}))
	add(tr("meshops.RotateAttribute3DTransformer", "meshops.RotateAttribute3D", fixed(Params{Attr: "", Q: QGeneric}, Params{Attr: Nr, Q: Q90Y}), func(p Params) modeling.Transformer {
		return meshops.RotateAttribute3DTransformer{Attribute: p.Attr, Amount: Quat(p.Q)}
	}))
	add(fn("meshops.CenterFloat3Attribute", "meshops.CenterFloat3Attribute", fixed(Params{Attr: P}, Params{Attr: Nr}), func(m modeling.Mesh, p Params) modeling.Mesh {
		return meshops.CenterFloat3Attribute(m, p.Attr)
	}))
	add(tr("meshops.CenterAttribute3DTransformer", "meshops.CenterFloat3Attribute", fixed(Params{Attr: ""}, Params{Attr: Nr}), func(p Params) modeling.Transformer {
		return meshops.CenterAttribute3DTransformer{Attribute: p.Attr}
	}))
	add(fn("meshops.NormalizeAttribute3D", "meshops.NormalizeAttribute3D", fixed(Params{Attr: P}, Params{Attr: Nr}), func(m modeling.Mesh, p Params) modeling.Mesh {
		return meshops.NormalizeAttribute3D(m, p.Attr)
	}))
	add(tr("meshops.NormalizeAttribute3DTransformer", "meshops.NormalizeAttribute3D", fixed(Params{Attr: ""}, Params{Attr: Nr}), func(p Params) modeling.Transformer {
		return meshops.NormalizeAttribute3DTransformer{Attribute: p.Attr}
	}))
	add(fn("meshops.NormalizeAttribute2D", "meshops.NormalizeAttribute2D", fixed(Params{Attr: UV}), func(m modeling.Mesh, p Params) modeling.Mesh {
		return meshops.NormalizeAttribute2D(m, p.Attr)
	}))
	add(tr("meshops.NormalizeAttribute2DTransformer", "meshops.NormalizeAttribute2D", fixed(Params{Attr: UV}), func(p Params) modeling.Transformer {
		return meshops.NormalizeAttribute2DTransformer{Attribute: p.Attr}
	}))
	add(fn("meshops.SmoothNormals", "meshops.SmoothNormals", fixed(Params{}), func(m modeling.Mesh, p Params) modeling.Mesh { return meshops.SmoothNormals(m) }))
	add(tr("meshops.SmoothNormalsTransformer", "meshops.SmoothNormals", fixed(Params{}), func(p Params) modeling.Transformer { return meshops.SmoothNormalsTransformer{} }))
	add(fn("meshops.SmoothNormalsImplicitWeld", "meshops.SmoothNormalsImplicitWeld", fixed(Params{F: 0}, Params{F: 0.01}, Params{F: -1, Mode: "negative-distance"}), func(m modeling.Mesh, p Params) modeling.Mesh {
		return meshops.SmoothNormalsImplicitWeld(m, p.F)
	}))
	add(tr("meshops.SmoothNormalsImplicitWeldTransformer", "meshops.SmoothNormalsImplicitWeld", fixed(Params{F: 0.01}), func(p Params) modeling.Transformer {
		return meshops.SmoothNormalsImplicitWeldTransformer{Distance: p.F}
	}))
	add(fn("meshops.FlatNormals", "meshops.FlatNormals", fixed(Params{}), func(m modeling.Mesh, p Params) modeling.Mesh { return meshops.FlatNormals(m) }))
	add(tr("meshops.FlatNormalsTransformer", "meshops.FlatNormals", fixed(Params{}), func(p Params) modeling.Transformer { return meshops.FlatNormalsTransformer{} }))
	lap := []Params{{Attr: P, N: 1, F: 0.5}, {Attr: P, N: 2, F: 1}, {Attr: P, N: 0, F: 0.5}, {Attr: Nr, N: 1, F: 0.25}}
	add(fn("meshops.LaplacianSmooth", "meshops.LaplacianSmooth", fixed(lap...), func(m modeling.Mesh, p Params) modeling.Mesh {
		return meshops.LaplacianSmooth(m, p.Attr, p.N, p.F)
	}))
	add(tr("meshops.LaplacianSmoothTransformer", "meshops.LaplacianSmooth", fixed(Params{Attr: "", N: 1, F: 0.5}, Params{Attr: Nr, N: 2, F: 0.5}), func(p Params) modeling.Transformer {
		return meshops.LaplacianSmoothTransformer{Attribute: p.Attr, Iterations: p.N, SmoothingFactor: p.F}
	}))
	add(fn("meshops.LaplacianSmoothAlongAxis", "meshops.LaplacianSmoothAlongAxis", fixed(Params{Attr: P, N: 1, F: 0.5, O: []float64{0, 2, 0}}, Params{Attr: P, N: 2, F: 1, O: []float64{1, 0, -1}}), func(m modeling.Mesh, p Params) modeling.Mesh {
		return meshops.LaplacianSmoothAlongAxis(m, p.Attr, p.N, p.F, V3(p.O))
	}))
	add(fn("meshops.VertexColorSpace", "meshops.VertexColorSpace", fixed(Params{Attr: Nr, N: 0}, Params{Attr: Nr, N: 1}), func(m modeling.Mesh, p Params) modeling.Mesh {
		return meshops.VertexColorSpace(m, p.Attr, meshops.VertexColorSpaceTransformation(p.N))
	}))
	add(tr("meshops.VertexColorSpaceTransformer", "meshops.VertexColorSpace", fixed(Params{Attr: Nr, N: 1}, Params{Attr: "", N: 0, Mode: "skip-missing"}, Params{Attr: "", N: 0}), func(p Params) modeling.Transformer {
		return meshops.VertexColorSpaceTransformer{Attribute: p.Attr, Transformation: meshops.VertexColorSpaceTransformation(p.N), SkipOnMissingAttribute: p.Mode == "skip-missing"}
	}))
	add(fn("meshops.ColorGradingLut", "meshops.ColorGradingLut", fixed(Params{Attr: Nr}), func(m modeling.Mesh, p Params) modeling.Mesh {
		return meshops.ColorGradingLut(m, lutImage, p.Attr)
	}))
	add(tr("meshops.ColorGradingLutTransformer", "meshops.ColorGradingLut", fixed(Params{Attr: Nr}), func(p Params) modeling.Transformer {
		return meshops.ColorGradingLutTransformer{Attribute: p.Attr, LUT: lutImage}
	}))

	// ---- repeat ----
	add(fn("repeat.Mesh", "repeat.Mesh", repeatVariants, func(m modeling.Mesh, p Params) modeling.Mesh { return repeat.Mesh(m, trsList(p)) }))

	// composite through Mesh.Transform (panics with the transformer's error)
	add(fn("Mesh.Transform(unweld,flip,removeUnreferenced)", "modeling.Mesh.Transform", fixed(Params{}), func(m modeling.Mesh, p Params) modeling.Mesh {
		return m.Transform(meshops.UnweldTransformer{}, meshops.FlipTriangleWindingTransformer{}, meshops.RemovedUnreferencedVerticesTransformer{})
	}))
	return ops
}

// ---------------------------------------------------------------------------------------------
// primitive walk (the "accessors do not read out of range" clause)
// ---------------------------------------------------------------------------------------------

// Walk reads every primitive of m through the public primitive accessors, touching only attributes
// the mesh reports to have. It returns a label of what was walked; it does not recover panics.
func Walk(m modeling.Mesh) string {
	f3 := m.Float3Attributes()
	f2 := m.Float2Attributes()
	f1 := m.Float1Attributes()
	sink := 0.
	switch m.Topology() {
	case modeling.TriangleTopology:
		n := m.PrimitiveCount()
		for i := 0; i < n; i++ {
			t := m.Tri(i)
			sink += float64(t.P1() + t.P2() + t.P3())
			for _, a := range f3 {
				sink += t.P1Vec3Attr(a).X() + t.P2Vec3Attr(a).X() + t.P3Vec3Attr(a).X()
				sink += t.Area3D(a)
				sink += t.BoundingBox(a).Size().X()
			}
			for _, a := range f2 {
				sink += t.P1Vec2Attr(a).X() + t.P2Vec2Attr(a).X() + t.P3Vec2Attr(a).X()
			}
			for _, a := range f1 {
				sink += t.P1Vec1Attr(a) + t.P2Vec1Attr(a) + t.P3Vec1Attr(a)
			}
		}
		if len(f3) > 0 {
			m.ScanPrimitives(func(i int, p modeling.Primitive) {
				sink += p.BoundingBox(f3[0]).Size().X()
				p.Scope(f3[0])
			})
		}
		_ = sink
		return "tri-walk"
	case modeling.PointTopology:
		if len(f3) > 0 {
			m.ScanPrimitives(func(i int, p modeling.Primitive) {
				for _, a := range f3 {
					sink += p.BoundingBox(a).Size().X()
					sink += p.ClosestPoint(a, vector3.Zero[float64]()).X()
					p.Scope(a)
				}
			})
		}
		_ = sink
		return "point-walk"
	}
	// other topologies (quads, lines): the library has no per-primitive accessor for quads and
	// Mesh.ScanPrimitives reports "unimplemented topology" for them; line strips are walked.
	if m.Topology() == modeling.LineStripTopology && len(f3) > 0 && m.Indices().Len() > 0 {
		m.ScanPrimitives(func(i int, p modeling.Primitive) {
			sink += p.BoundingBox(f3[0]).Size().X()
		})
		_ = sink
		return "linestrip-walk"
	}
	return "no-primitive-accessor"
}

// IndexClass is the deterministic input class used in violation identities.
func IndexClass(idx []int, l int) string {
	if len(idx) == 0 {
		return "no-primitives"
	}
	count := make(map[int]int)
	identity := len(idx) == l
	for k, i := range idx {
		count[i]++
		if i != k {
			identity = false
		}
	}
	if identity {
		return "identity-indices"
	}
	shared, unref := false, false
	for v := 0; v < l; v++ {
		if count[v] > 1 {
			shared = true
		}
		if count[v] == 0 {
			unref = true
		}
	}
	switch {
	case shared && unref:
		return "shared+unreferenced-vertices"
	case shared:
		return "shared-vertices"
	case unref:
		return "unreferenced-vertices"
	}
	return "permuted-indices"
}

// SpecClass renders the input class of a spec.
func SpecClass(s meshlib.Spec) string { return ShapeOfSpec(s).Class() }

// LadderSpecs (size ladder of C02 and C03): for a primitive count n, a welded strip in a non-identity index order with two
// material ranges, the same strip with all vertices on the three palette positions (welding merges
// them into three classes), an unwelded soup, and a point cloud in reverse index order.
func LadderSpecs(n int) []meshlib.Spec {
	strip := make([]int, 0, 3*n)
	for f := 0; f < n; f++ {
		strip = append(strip, f+2, f, f+1)
	}
	pal := make([]int, n+2)
	for i := range pal {
		pal[i] = (i*i + i/3) % 3
	}
	soup := make([]int, 3*n)
	for i := range soup {
		soup[i] = i
	}
	rev := make([]int, n)
	for i := range rev {
		rev[i] = n - 1 - i
	}
	return []meshlib.Spec{
		{Topo: "tri", V: n + 2, Idx: strip, Mix: "all", Mats: []int{n / 3, n - n/3}},
		{Topo: "tri", V: n + 2, Idx: strip, Mix: "P", Pos: pal},
		{Topo: "tri", V: 3 * n, Idx: soup, Mix: "PN"},
		{Topo: "point", V: n, Idx: rev, Mix: "all"},
	}
}
