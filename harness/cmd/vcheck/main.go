// vcheck: plain build (no overlay) explorers.
package main

import (
	"verif/harness/core"
	_ "verif/harness/props/c17"
)

func main() { core.Main() }
