// explorer binary for C05 (plain build, no overlay)
package main

import (
	"verif/harness/core"
	_ "verif/harness/props/c05"
)

func main() { core.Main() }
