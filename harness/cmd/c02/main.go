// explorer binary for C02 (plain build, no overlay)
package main

import (
	"verif/harness/core"
	_ "verif/harness/props/c02"
)

func main() { core.Main() }
