// explorer binary for C19 (plain build, no overlay)
package main

import (
	"verif/harness/core"
	_ "verif/harness/props/c19"
)

func main() { core.Main() }
