// explorer binary for C14 (variant cut-c14: built by bin/build-cut-c14.sh through the looptick overlay)
package main

import (
	"verif/harness/core"
	_ "verif/harness/props/c14"
)

func main() { core.Main() }
