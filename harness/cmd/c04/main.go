// explorer binary for C04 (plain build, no overlay)
package main

import (
	"verif/harness/core"
	_ "verif/harness/props/c04"
)

func main() { core.Main() }
