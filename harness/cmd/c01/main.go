// explorer binary for C01 (plain build, no overlay)
package main

import (
	"verif/harness/core"
	_ "verif/harness/props/c01"
)

func main() { core.Main() }
