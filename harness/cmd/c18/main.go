// explorer binary for C18 (plain build, no overlay)
package main

import (
	"verif/harness/core"
	_ "verif/harness/props/c18"
)

func main() { core.Main() }
