// explorer binary for C09 (plain build = real block edge 100; bin/build-blk6-c09.sh builds the same
// main with an overlay that changes only the constant marchingSectionSize to 6)
package main

import (
	"verif/harness/core"
	_ "verif/harness/props/c09"
)

func main() { core.Main() }
