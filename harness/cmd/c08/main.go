// explorer binary for C08 (plain build, no overlay)
package main

import (
	"verif/harness/core"
	_ "verif/harness/props/c08"
)

func main() { core.Main() }
