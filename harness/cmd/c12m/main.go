// explorer binary for C12 (runtime map-order seam build)
package main

import (
	"verif/harness/core"
	_ "verif/harness/props/c12m"
)

func main() { core.Main() }
