// explorer binary for C13 (instrumented -race build: vinstr overlay on generator/graph, generator/sync)
package main

import (
	"verif/harness/core"
	_ "verif/harness/props/c13s"
)

func main() { core.Main() }
