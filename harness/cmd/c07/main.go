// explorer binary for C07 (plain build, no overlay)
package main

import (
	"verif/harness/core"
	_ "verif/harness/props/c07"
)

func main() { core.Main() }
