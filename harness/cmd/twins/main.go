// explorer binary for the concurrent-twin scenarios (instrumented -race build: vinstr overlay)
package main

import (
	"verif/harness/core"
	_ "verif/harness/props/c18t"
	_ "verif/harness/props/twins"
)

func main() { core.Main() }
