// explorer binary for C17 (plain build, no overlay)
package main

import (
	"verif/harness/core"
	_ "verif/harness/props/c17"
)

func main() { core.Main() }
