// explorer binary for C10 (instrumented -race build: vinstr overlay, marchingSectionSize scaled to 6)
package main

import (
	"verif/harness/core"
	_ "verif/harness/props/c10i"
	_ "verif/harness/props/c10s"
)

func main() { core.Main() }
