// explorer binary for C06 (plain build, no overlay)
package main

import (
	"verif/harness/core"
	_ "verif/harness/props/c06"
)

func main() { core.Main() }
