// explorer binary for C20 (plain build, no overlay)
package main

import (
	"verif/harness/core"
	_ "verif/harness/props/c20"
)

func main() { core.Main() }
