// explorer binary for C15 (plain build, no overlay)
package main

import (
	"verif/harness/core"
	_ "verif/harness/props/c15"
)

func main() { core.Main() }
