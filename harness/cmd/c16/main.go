// explorer binary for C16, octree part (plain build, no overlay)
package main

import (
	"verif/harness/core"
	_ "verif/harness/props/c16"
)

func main() { core.Main() }
