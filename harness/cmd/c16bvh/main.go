// explorer binary for C16, BVH part (built by bin/build-bvh-c16.sh with the math/rand seam overlay)
package main

import (
	"verif/harness/core"
	_ "verif/harness/props/c16/bvh"
)

func main() { core.Main() }
