// explorer binary for C11 (runtime map-order seam build)
package main

import (
	"verif/harness/core"
	_ "verif/harness/props/c11m"
)

func main() { core.Main() }
