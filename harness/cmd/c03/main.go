// explorer binary for C03 (plain build, no overlay)
package main

import (
	"verif/harness/core"
	_ "verif/harness/props/c03"
)

func main() { core.Main() }
