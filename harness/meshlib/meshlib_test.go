package meshlib

import "testing"

func TestEnumCounts(t *testing.T) {
	for _, o := range []EnumOpt{
		{MaxV: 3, MaxP: 2, Topos: []string{"tri"}, Mixes: []string{"P"}, AllPos: true},
		{MaxV: 4, MaxP: 2, Topos: []string{"tri", "point"}, Mixes: []string{"P"}, AllPos: true},
		{MaxV: 3, MaxP: 2, Topos: []string{"tri", "point"}, Mixes: []string{"none", "all"}, AllPos: false},
	} {
		bad := 0
		n := Enum(o, func(i int, s Spec) bool {
			m := s.Build()
			if c, _ := Snapshot(m).WF(); c != "" {
				bad++
			}
			return true
		})
		t.Log(o, n, bad)
		if bad > 0 {
			t.Fatal("enumerator produced ill-formed meshes")
		}
	}
}
