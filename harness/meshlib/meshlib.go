// Package meshlib is the shared mesh machinery of the mesh-valued checks (C01–C07, C17):
// the S_mesh(n,k) scope, fresh mesh construction from a replayable spec, public-accessor snapshots,
// the well-formedness predicate and the RefMesh (per-corner tuple) reference representation.
package meshlib

import (
	"encoding/binary"
	"fmt"
	"hash/fnv"
	"math"
	"sort"

	"github.com/EliCDavis/polyform/modeling"
	"github.com/EliCDavis/vector/vector2"
	"github.com/EliCDavis/vector/vector3"
	"github.com/EliCDavis/vector/vector4"
)

// ---------------------------------------------------------------------------------------------
// specs
// ---------------------------------------------------------------------------------------------

// Spec is a replayable description of one member of S_mesh. Build always returns a fresh mesh
// that shares no memory with any other mesh.
type Spec struct {
	Topo string `json:"topo"` // "tri" | "point" | "quad" | "line" | "strip" | "loop"
	V    int    `json:"v"`    // vertex count
	Idx  []int  `json:"idx"`
	// Pos[i] is the palette slot (0..2) of vertex i, or nil for the all-distinct assignment.
	Pos []int `json:"pos,omitempty"`
	// Mix names the attribute mix (see Mixes).
	Mix string `json:"mix"`
	// Mats: primitive counts of consecutive material ranges; material ids cycle A,B,nil.
	Mats []int `json:"mats,omitempty"`
}

// Attribute mixes. Position is always a float3 attribute when present.
var Mixes = map[string][]string{
	"none": {},
	"P":    {modeling.PositionAttribute},
	"PN":   {modeling.PositionAttribute, modeling.NormalAttribute},
	"PT":   {modeling.PositionAttribute, modeling.TexCoordAttribute},
	"PNT":  {modeling.PositionAttribute, modeling.NormalAttribute, modeling.TexCoordAttribute},
	// all four widths: float3 ×2, float2, float1, float4
	"all": {modeling.PositionAttribute, modeling.NormalAttribute, modeling.TexCoordAttribute, "Mass", modeling.JointAttribute},
	// no position at all
	"N":  {modeling.NormalAttribute},
	"T1": {modeling.TexCoordAttribute, "Mass"},
}

// width of the attribute names used by the mixes
func Width(attr string) int {
	switch attr {
	case modeling.TexCoordAttribute:
		return 2
	case "Mass", "Scalar", modeling.OpacityAttribute:
		return 1
	case modeling.JointAttribute, modeling.RotationAttribute:
		return 4
	}
	return 3
}

var Palette = [3]vector3.Float64{vector3.New(0., 0., 0.), vector3.New(1., 0., 0.), vector3.New(0., 1., 0.)}

// DistinctPos is the all-distinct assignment (general position, float32-inexact members).
func DistinctPos(i int) vector3.Float64 {
	return vector3.New(float64(i)+0.1, float64(i*i)*0.5-0.3, 1.7-float64(i)*0.25+float64(i*i*i)*0.125)
}

// AttrValue gives vertex i of attribute attr a vertex-unique value (so every permutation is
// visible) that includes float32-inexact numbers.
func AttrValue(attr string, i int) [4]float64 {
	s := 0.
	for _, c := range attr {
		s += float64(c)
	}
	b := math.Mod(s, 7) + 1
	f := float64(i)
	return [4]float64{b + f + 0.1, b*2 - f*0.5 + 1.0/3, b*0.25 + f*f + 0.7, b - f - 0.2}
}

var MatA = modeling.Material{Name: "matA"}
var MatB = modeling.Material{Name: "matB"}

func (s Spec) Topology() modeling.Topology {
	switch s.Topo {
	case "point":
		return modeling.PointTopology
	case "quad":
		return modeling.QuadTopology
	case "line":
		return modeling.LineTopology
	case "strip":
		return modeling.LineStripTopology
	case "loop":
		return modeling.LineLoopTopology
	}
	return modeling.TriangleTopology
}

// IndexSize is the number of indices per primitive of a topology name (1 for points, strips and loops,
// whose index arrays may have any length).
func IndexSize(topo string) int {
	switch topo {
	case "tri":
		return 3
	case "quad":
		return 4
	case "line":
		return 2
	}
	return 1
}

// TopoName is the Spec name of a topology.
func TopoName(t modeling.Topology) string {
	switch t {
	case modeling.TriangleTopology:
		return "tri"
	case modeling.PointTopology:
		return "point"
	case modeling.QuadTopology:
		return "quad"
	case modeling.LineTopology:
		return "line"
	case modeling.LineStripTopology:
		return "strip"
	case modeling.LineLoopTopology:
		return "loop"
	}
	return "other"
}

func (s Spec) Position(i int) vector3.Float64 {
	if s.Pos == nil {
		return DistinctPos(i)
	}
	return Palette[s.Pos[i]]
}

// Build constructs the mesh through the public constructors/setters only.
func (s Spec) Build() modeling.Mesh {
	m := modeling.NewMesh(s.Topology(), append([]int{}, s.Idx...))
	for _, a := range Mixes[s.Mix] {
		switch Width(a) {
		case 3:
			d := make([]vector3.Float64, s.V)
			for i := range d {
				if a == modeling.PositionAttribute {
					d[i] = s.Position(i)
				} else {
					v := AttrValue(a, i)
					d[i] = vector3.New(v[0], v[1], v[2])
				}
			}
			m = m.SetFloat3Attribute(a, d)
		case 2:
			d := make([]vector2.Float64, s.V)
			for i := range d {
				v := AttrValue(a, i)
				d[i] = vector2.New(v[0], v[1])
			}
			m = m.SetFloat2Attribute(a, d)
		case 1:
			d := make([]float64, s.V)
			for i := range d {
				d[i] = AttrValue(a, i)[0]
			}
			m = m.SetFloat1Attribute(a, d)
		case 4:
			d := make([]vector4.Float64, s.V)
			for i := range d {
				v := AttrValue(a, i)
				d[i] = vector4.New(v[0], v[1], v[2], v[3])
			}
			m = m.SetFloat4Attribute(a, d)
		}
	}
	if len(s.Mats) > 0 {
		ms := make([]modeling.MeshMaterial, len(s.Mats))
		for i, n := range s.Mats {
			var mp *modeling.Material
			switch i % 3 {
			case 0:
				mp = &MatA
			case 1:
				mp = &MatB
			}
			ms[i] = modeling.MeshMaterial{PrimitiveCount: n, Material: mp}
		}
		m = m.SetMaterials(ms)
	}
	return m
}

func (s Spec) String() string {
	return fmt.Sprintf("%s v=%d idx=%v pos=%v mix=%s mats=%v", s.Topo, s.V, s.Idx, s.Pos, s.Mix, s.Mats)
}

// PrimCount of the spec.
func (s Spec) PrimCount() int { return len(s.Idx) / IndexSize(s.Topo) }

// ---------------------------------------------------------------------------------------------
// S_mesh(n,k) enumeration
// ---------------------------------------------------------------------------------------------

// Options of the enumeration.
type EnumOpt struct {
	MaxV, MaxP int
	Topos      []string // "tri", "point"
	Mixes      []string
	// AllPos: every assignment of vertices to the 3-point palette (3^v) + the all-distinct one;
	// otherwise only the all-distinct assignment and the all-coincident one.
	AllPos bool
	// MinV lets a caller skip tiny meshes.
	MinV int
}

// Enum calls f for every member in a stable order with a running index. f returns false to stop.
func Enum(o EnumOpt, f func(i int, s Spec) bool) int {
	n := 0
	for _, mix := range o.Mixes {
		for _, topo := range o.Topos {
			for v := o.MinV; v <= o.MaxV; v++ {
				var idxs [][]int
				if sz := IndexSize(topo); sz > 1 {
					for p := 0; p <= o.MaxP; p++ {
						idxs = append(idxs, tuples(v, sz*p)...)
					}
				} else {
					for p := 0; p <= o.MaxP; p++ {
						idxs = append(idxs, tuples(v, p)...)
					}
					// identity over all vertices (the implied-index point cloud)
					if v > o.MaxP {
						id := make([]int, v)
						for i := range id {
							id[i] = i
						}
						idxs = append(idxs, id)
					}
				}
				var poss [][]int
				poss = append(poss, nil)
				if v > 0 {
					if o.AllPos {
						poss = append(poss, tuples(3, v)...)
					} else {
						poss = append(poss, make([]int, v))
					}
				}
				hasPos := false
				for _, a := range Mixes[mix] {
					if a == modeling.PositionAttribute {
						hasPos = true
					}
				}
				if !hasPos {
					poss = poss[:1]
				}
				for _, idx := range idxs {
					for _, pos := range poss {
						s := Spec{Topo: topo, V: v, Idx: idx, Pos: pos, Mix: mix}
						if len(Mixes[mix]) == 0 {
							s.V = 0
							if len(idx) > 0 {
								continue // no attribute data ⇒ no vertex exists ⇒ only the empty index array is well-formed
							}
						}
						if !f(n, s) {
							return n
						}
						n++
					}
				}
				if len(Mixes[mix]) == 0 {
					break
				}
			}
		}
	}
	return n
}

// tuples returns all length-k tuples over {0..n-1} in lexicographic order (n^k of them).
func tuples(n, k int) [][]int {
	if k == 0 {
		return [][]int{{}}
	}
	if n == 0 {
		return nil
	}
	total := 1
	for i := 0; i < k; i++ {
		total *= n
	}
	out := make([][]int, 0, total)
	cur := make([]int, k)
	for {
		out = append(out, append([]int{}, cur...))
		i := k - 1
		for i >= 0 {
			cur[i]++
			if cur[i] < n {
				break
			}
			cur[i] = 0
			i--
		}
		if i < 0 {
			break
		}
	}
	return out
}

// Tuples is exported for other enumerators.
func Tuples(n, k int) [][]int { return tuples(n, k) }

// ---------------------------------------------------------------------------------------------
// snapshots through public accessors only
// ---------------------------------------------------------------------------------------------

// Snap is a complete rendering of what a mesh reports through its public accessors.
type Snap struct {
	Topo  modeling.Topology
	Idx   []int
	Mats  []MatSnap
	Names [4][]string // by width-1
	F1    map[string][]float64
	F2    map[string][]vector2.Float64
	F3    map[string][]vector3.Float64
	F4    map[string][]vector4.Float64
	Prims int
	PErr  string
	ALen  int
}

type MatSnap struct {
	Count int
	Ptr   *modeling.Material
	Name  string
}

// Snapshot reads everything the public accessors expose. It never panics: accessor panics are
// recorded in PErr (PrimitiveCount may panic on unknown topologies).
func Snapshot(m modeling.Mesh) Snap {
	s := Snap{Topo: m.Topology(), F1: map[string][]float64{}, F2: map[string][]vector2.Float64{}, F3: map[string][]vector3.Float64{}, F4: map[string][]vector4.Float64{}}
	it := m.Indices()
	s.Idx = make([]int, it.Len())
	for i := range s.Idx {
		s.Idx[i] = it.At(i)
	}
	for _, mm := range m.Materials() {
		ms := MatSnap{Count: mm.PrimitiveCount, Ptr: mm.Material}
		if mm.Material != nil {
			ms.Name = mm.Material.Name
		}
		s.Mats = append(s.Mats, ms)
	}
	func() {
		defer func() {
			if r := recover(); r != nil {
				s.PErr = fmt.Sprint(r)
			}
		}()
		s.Prims = m.PrimitiveCount()
	}()
	s.ALen = m.AttributeLength()
	s.Names[0] = m.Float1Attributes()
	s.Names[1] = m.Float2Attributes()
	s.Names[2] = m.Float3Attributes()
	s.Names[3] = m.Float4Attributes()
	for _, a := range s.Names[0] {
		it := m.Float1Attribute(a)
		d := make([]float64, it.Len())
		for i := range d {
			d[i] = it.At(i)
		}
		s.F1[a] = d
	}
	for _, a := range s.Names[1] {
		it := m.Float2Attribute(a)
		d := make([]vector2.Float64, it.Len())
		for i := range d {
			d[i] = it.At(i)
		}
		s.F2[a] = d
	}
	for _, a := range s.Names[2] {
		it := m.Float3Attribute(a)
		d := make([]vector3.Float64, it.Len())
		for i := range d {
			d[i] = it.At(i)
		}
		s.F3[a] = d
	}
	for _, a := range s.Names[3] {
		it := m.Float4Attribute(a)
		d := make([]vector4.Float64, it.Len())
		for i := range d {
			d[i] = it.At(i)
		}
		s.F4[a] = d
	}
	return s
}

// Hash is a bit-exact digest of a snapshot (NaN payloads included, -0 ≠ +0).
func (s Snap) Hash() uint64 {
	h := fnv.New64a()
	var b [8]byte
	wi := func(i int) { binary.LittleEndian.PutUint64(b[:], uint64(i)); h.Write(b[:]) }
	wf := func(f float64) { binary.LittleEndian.PutUint64(b[:], math.Float64bits(f)); h.Write(b[:]) }
	wi(int(s.Topo))
	wi(len(s.Idx))
	for _, i := range s.Idx {
		wi(i)
	}
	wi(len(s.Mats))
	for _, m := range s.Mats {
		wi(m.Count)
		h.Write([]byte(fmt.Sprintf("%p", m.Ptr)))
		h.Write([]byte(m.Name))
	}
	wi(s.Prims)
	h.Write([]byte(s.PErr))
	for w := 0; w < 4; w++ {
		wi(len(s.Names[w]))
		for _, a := range s.Names[w] {
			h.Write([]byte(a))
			h.Write([]byte{0})
			switch w {
			case 0:
				wi(len(s.F1[a]))
				for _, v := range s.F1[a] {
					wf(v)
				}
			case 1:
				wi(len(s.F2[a]))
				for _, v := range s.F2[a] {
					wf(v.X())
					wf(v.Y())
				}
			case 2:
				wi(len(s.F3[a]))
				for _, v := range s.F3[a] {
					wf(v.X())
					wf(v.Y())
					wf(v.Z())
				}
			case 3:
				wi(len(s.F4[a]))
				for _, v := range s.F4[a] {
					wf(v.X())
					wf(v.Y())
					wf(v.Z())
					wf(v.W())
				}
			}
		}
	}
	return h.Sum64()
}

// Diff names the first difference between two snapshots ("" if bit-identical).
func (s Snap) Diff(o Snap) string {
	if s.Topo != o.Topo {
		return fmt.Sprintf("topology %v -> %v", s.Topo, o.Topo)
	}
	if fmt.Sprint(s.Idx) != fmt.Sprint(o.Idx) {
		return fmt.Sprintf("indices %v -> %v", s.Idx, o.Idx)
	}
	if len(s.Mats) != len(o.Mats) {
		return fmt.Sprintf("materials %d -> %d ranges", len(s.Mats), len(o.Mats))
	}
	for i := range s.Mats {
		if s.Mats[i] != o.Mats[i] {
			return fmt.Sprintf("material range %d %+v -> %+v", i, s.Mats[i], o.Mats[i])
		}
	}
	for w := 0; w < 4; w++ {
		if fmt.Sprint(s.Names[w]) != fmt.Sprint(o.Names[w]) {
			return fmt.Sprintf("float%d attribute names %v -> %v", w+1, s.Names[w], o.Names[w])
		}
	}
	bits := func(a, b float64) bool { return math.Float64bits(a) == math.Float64bits(b) }
	for a, d := range s.F1 {
		e := o.F1[a]
		if len(d) != len(e) {
			return fmt.Sprintf("%s length %d -> %d", a, len(d), len(e))
		}
		for i := range d {
			if !bits(d[i], e[i]) {
				return fmt.Sprintf("%s[%d] %v -> %v", a, i, d[i], e[i])
			}
		}
	}
	for a, d := range s.F2 {
		e := o.F2[a]
		if len(d) != len(e) {
			return fmt.Sprintf("%s length %d -> %d", a, len(d), len(e))
		}
		for i := range d {
			if !bits(d[i].X(), e[i].X()) || !bits(d[i].Y(), e[i].Y()) {
				return fmt.Sprintf("%s[%d] %v -> %v", a, i, d[i], e[i])
			}
		}
	}
	for a, d := range s.F3 {
		e := o.F3[a]
		if len(d) != len(e) {
			return fmt.Sprintf("%s length %d -> %d", a, len(d), len(e))
		}
		for i := range d {
			if !bits(d[i].X(), e[i].X()) || !bits(d[i].Y(), e[i].Y()) || !bits(d[i].Z(), e[i].Z()) {
				return fmt.Sprintf("%s[%d] %v -> %v", a, i, d[i], e[i])
			}
		}
	}
	for a, d := range s.F4 {
		e := o.F4[a]
		if len(d) != len(e) {
			return fmt.Sprintf("%s length %d -> %d", a, len(d), len(e))
		}
		for i := range d {
			if !bits(d[i].X(), e[i].X()) || !bits(d[i].Y(), e[i].Y()) || !bits(d[i].Z(), e[i].Z()) || !bits(d[i].W(), e[i].W()) {
				return fmt.Sprintf("%s[%d] %v -> %v", a, i, d[i], e[i])
			}
		}
	}
	if s.Prims != o.Prims || s.PErr != o.PErr {
		return fmt.Sprintf("primitive count %d -> %d", s.Prims, o.Prims)
	}
	return ""
}

// ---------------------------------------------------------------------------------------------
// well-formedness (C02)
// ---------------------------------------------------------------------------------------------

// WF returns "" when the snapshot describes a well-formed mesh, else the violated clause.
func (s Snap) WF() (clause, detail string) {
	L := -1
	check := func(a string, n int) (string, string) {
		if L < 0 {
			L = n
		} else if n != L {
			return "all attribute arrays share one length", fmt.Sprintf("attribute %s has %d entries, another has %d", a, n, L)
		}
		return "", ""
	}
	for w := 0; w < 4; w++ {
		for _, a := range s.Names[w] {
			var n int
			switch w {
			case 0:
				n = len(s.F1[a])
			case 1:
				n = len(s.F2[a])
			case 2:
				n = len(s.F3[a])
			case 3:
				n = len(s.F4[a])
			}
			if c, d := check(a, n); c != "" {
				return c, d
			}
		}
	}
	if L < 0 {
		L = 0
	}
	for k, i := range s.Idx {
		if i < 0 || i >= L {
			return "every index refers to an existing vertex", fmt.Sprintf("index[%d]=%d but there are %d vertices", k, i, L)
		}
	}
	switch s.Topo {
	case modeling.TriangleTopology:
		if len(s.Idx)%3 != 0 {
			return "the number of indices fits the topology", fmt.Sprintf("%d indices on a triangle mesh", len(s.Idx))
		}
	case modeling.QuadTopology:
		if len(s.Idx)%4 != 0 {
			return "the number of indices fits the topology", fmt.Sprintf("%d indices on a quad mesh", len(s.Idx))
		}
	case modeling.LineTopology:
		if len(s.Idx)%2 != 0 {
			return "the number of indices fits the topology", fmt.Sprintf("%d indices on a line mesh", len(s.Idx))
		}
	}
	return "", ""
}

// ---------------------------------------------------------------------------------------------
// RefMesh: per-corner tuples (C03 and the codec checks)
// ---------------------------------------------------------------------------------------------

// Corner is the complete attribute tuple of one primitive corner: Vals[k] belongs to Attrs[k].
type Corner struct {
	Vals [][4]float64
}

type RefMesh struct {
	Topo  modeling.Topology
	Attrs []string // sorted, "name/width"
	Prims [][]Corner
	Mats  []MatSnap
	// Verts is the vertex table in array order (for vertex-wise contracts).
	Verts []Corner
	Idx   []int
}

func attrKey(name string, w int) string { return fmt.Sprintf("%s/%d", name, w) }

// Ref builds the RefMesh of a (well-formed) snapshot by reading every primitive's corners through
// the index array. Only triangle and point topologies are expanded into primitives.
func (s Snap) Ref() RefMesh {
	r := RefMesh{Topo: s.Topo, Mats: s.Mats, Idx: s.Idx}
	type col struct {
		key string
		get func(i int) [4]float64
	}
	var cols []col
	for _, a := range s.Names[0] {
		d := s.F1[a]
		cols = append(cols, col{attrKey(a, 1), func(i int) [4]float64 { return [4]float64{d[i]} }})
	}
	for _, a := range s.Names[1] {
		d := s.F2[a]
		cols = append(cols, col{attrKey(a, 2), func(i int) [4]float64 { return [4]float64{d[i].X(), d[i].Y()} }})
	}
	for _, a := range s.Names[2] {
		d := s.F3[a]
		cols = append(cols, col{attrKey(a, 3), func(i int) [4]float64 { return [4]float64{d[i].X(), d[i].Y(), d[i].Z()} }})
	}
	for _, a := range s.Names[3] {
		d := s.F4[a]
		cols = append(cols, col{attrKey(a, 4), func(i int) [4]float64 { return [4]float64{d[i].X(), d[i].Y(), d[i].Z(), d[i].W()} }})
	}
	sort.Slice(cols, func(i, j int) bool { return cols[i].key < cols[j].key })
	for _, c := range cols {
		r.Attrs = append(r.Attrs, c.key)
	}
	vert := func(i int) Corner {
		c := Corner{Vals: make([][4]float64, len(cols))}
		for k, col := range cols {
			c.Vals[k] = col.get(i)
		}
		return c
	}
	r.Verts = make([]Corner, s.ALen)
	for i := range r.Verts {
		r.Verts[i] = vert(i)
	}
	size := 1
	if s.Topo == modeling.TriangleTopology {
		size = 3
	}
	for p := 0; p+size <= len(s.Idx); p += size {
		prim := make([]Corner, size)
		for k := 0; k < size; k++ {
			prim[k] = r.Verts[s.Idx[p+k]]
		}
		r.Prims = append(r.Prims, prim)
	}
	return r
}

// AttrIndex returns the column of attribute name/width or -1.
func (r RefMesh) AttrIndex(name string, w int) int {
	k := attrKey(name, w)
	for i, a := range r.Attrs {
		if a == k {
			return i
		}
	}
	return -1
}

func bitsEq(a, b [4]float64) bool {
	for i := range a {
		if math.Float64bits(a[i]) != math.Float64bits(b[i]) {
			return false
		}
	}
	return true
}

// CornerEq is bit-equality of complete tuples.
func CornerEq(a, b Corner) bool {
	if len(a.Vals) != len(b.Vals) {
		return false
	}
	for i := range a.Vals {
		if !bitsEq(a.Vals[i], b.Vals[i]) {
			return false
		}
	}
	return true
}

// CornerEqExcept is bit-equality of every column except skip (−1 = none).
func CornerEqExcept(a, b Corner, skip int) bool {
	if len(a.Vals) != len(b.Vals) {
		return false
	}
	for i := range a.Vals {
		if i != skip && !bitsEq(a.Vals[i], b.Vals[i]) {
			return false
		}
	}
	return true
}

// PrimEq compares two primitives corner by corner.
func PrimEq(a, b []Corner) bool {
	if len(a) != len(b) {
		return false
	}
	for i := range a {
		if !CornerEq(a[i], b[i]) {
			return false
		}
	}
	return true
}

// PrimKey renders a primitive for multiset comparison.
func PrimKey(p []Corner) string {
	h := fnv.New64a()
	var b [8]byte
	for _, c := range p {
		for _, v := range c.Vals {
			for _, f := range v {
				binary.LittleEndian.PutUint64(b[:], math.Float64bits(f))
				h.Write(b[:])
			}
		}
		h.Write([]byte{1})
	}
	return string(h.Sum(nil))
}

func SameAttrs(a, b RefMesh) bool { return fmt.Sprint(a.Attrs) == fmt.Sprint(b.Attrs) }

// PrimsEqualInOrder: same primitive list, corner tuples bit-identical.
func PrimsEqualInOrder(a, b RefMesh) string {
	if !SameAttrs(a, b) {
		return fmt.Sprintf("attribute sets differ: %v vs %v", a.Attrs, b.Attrs)
	}
	if len(a.Prims) != len(b.Prims) {
		return fmt.Sprintf("primitive count %d vs %d", len(a.Prims), len(b.Prims))
	}
	for i := range a.Prims {
		if !PrimEq(a.Prims[i], b.Prims[i]) {
			return fmt.Sprintf("primitive %d differs: %v vs %v", i, a.Prims[i], b.Prims[i])
		}
	}
	return ""
}

// ---------------------------------------------------------------------------------------------
// QuickHash: allocation-light digest of everything the public accessors report (C01's oracle).
// Bit-exact on values; materials by range length, nil-ness and content (name, colours via %v is
// avoided: name + numeric fields) and by the pointer-sharing pattern between ranges, not by address.
// ---------------------------------------------------------------------------------------------

type fnv64 uint64

const fnvOff fnv64 = 14695981039346656037
const fnvPrime = 1099511628211

func (h *fnv64) u64(v uint64) {
	x := uint64(*h)
	for i := 0; i < 8; i++ {
		x ^= v & 0xff
		x *= fnvPrime
		v >>= 8
	}
	*h = fnv64(x)
}
func (h *fnv64) str(s string) {
	x := uint64(*h)
	for i := 0; i < len(s); i++ {
		x ^= uint64(s[i])
		x *= fnvPrime
	}
	x ^= 0xff
	x *= fnvPrime
	*h = fnv64(x)
}
func (h *fnv64) f(v float64) { h.u64(math.Float64bits(v)) }

func QuickHash(m modeling.Mesh) uint64 {
	h := fnvOff
	h.u64(uint64(m.Topology()))
	it := m.Indices()
	n := it.Len()
	h.u64(uint64(n))
	for i := 0; i < n; i++ {
		h.u64(uint64(it.At(i)))
	}
	mats := m.Materials()
	h.u64(uint64(len(mats)))
	for k, mm := range mats {
		h.u64(uint64(mm.PrimitiveCount))
		if mm.Material == nil {
			h.u64(0)
		} else {
			// pointer identity *within* the mesh is observable (split-by-material keys on it):
			// hash the position of the first range using the same pointer
			first := k
			for q := 0; q < k; q++ {
				if mats[q].Material == mm.Material {
					first = q
					break
				}
			}
			h.u64(uint64(first + 1))
			h.str(mm.Material.Name)
			h.f(mm.Material.SpecularHighlight)
			h.f(mm.Material.OpticalDensity)
			h.f(mm.Material.Transparency)
		}
	}
	for _, a := range m.Float1Attributes() {
		h.str(a)
		d := m.Float1Attribute(a)
		h.u64(uint64(d.Len()))
		for i := 0; i < d.Len(); i++ {
			h.f(d.At(i))
		}
	}
	h.u64(2)
	for _, a := range m.Float2Attributes() {
		h.str(a)
		d := m.Float2Attribute(a)
		h.u64(uint64(d.Len()))
		for i := 0; i < d.Len(); i++ {
			v := d.At(i)
			h.f(v.X())
			h.f(v.Y())
		}
	}
	h.u64(3)
	for _, a := range m.Float3Attributes() {
		h.str(a)
		d := m.Float3Attribute(a)
		h.u64(uint64(d.Len()))
		for i := 0; i < d.Len(); i++ {
			v := d.At(i)
			h.f(v.X())
			h.f(v.Y())
			h.f(v.Z())
		}
	}
	h.u64(4)
	for _, a := range m.Float4Attributes() {
		h.str(a)
		d := m.Float4Attribute(a)
		h.u64(uint64(d.Len()))
		for i := 0; i < d.Len(); i++ {
			v := d.At(i)
			h.f(v.X())
			h.f(v.Y())
			h.f(v.Z())
			h.f(v.W())
		}
	}
	return uint64(h)
}

// MaterialSharing digests which material ranges of a and b use the same *Material (the
// cross-operand part of pointer identity, needed to call two operand pairs "equal").
func MaterialSharing(a, b modeling.Mesh) uint64 {
	h := fnvOff
	all := append(append([]modeling.MeshMaterial{}, a.Materials()...), b.Materials()...)
	for k, mm := range all {
		first := k
		if mm.Material == nil {
			first = -1
		} else {
			for q := 0; q < k; q++ {
				if all[q].Material == mm.Material {
					first = q
					break
				}
			}
		}
		h.u64(uint64(first + 2))
	}
	return uint64(h)
}
