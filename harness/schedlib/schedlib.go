// Package schedlib glues the controlled scheduler (verifrt/vsched, injected by overlay) to the
// check bookkeeping: per-execution race-report attribution, exploration over preemption bounds,
// sharding, samples, and a self-test that proves the engine sees what it claims to see.
package schedlib

import (
	"fmt"
	"os"
	"strings"

	"github.com/EliCDavis/polyform/verifrt/vsched"

	"verif/harness/core"
)

// RaceLog attributes ThreadSanitizer reports to executions: the worker runs with
// GORACE="log_path=<prefix> halt_on_error=0"; reports are appended to <prefix>.<pid> at the moment
// of the second access, so whatever appeared during an execution belongs to it.
type RaceLog struct {
	path string
	off  int64
	On   bool
}

func NewRaceLog() *RaceLog {
	r := &RaceLog{}
	for _, kv := range strings.Fields(os.Getenv("GORACE")) {
		if strings.HasPrefix(kv, "log_path=") {
			r.path = fmt.Sprintf("%s.%d", strings.TrimPrefix(kv, "log_path="), os.Getpid())
			r.On = true
		}
	}
	return r
}

// New returns the race reports written since the last call ("" if none).
func (r *RaceLog) New() string {
	if !r.On {
		return ""
	}
	b, err := os.ReadFile(r.path)
	if err != nil || int64(len(b)) <= r.off {
		return ""
	}
	s := string(b[r.off:])
	r.off = int64(len(b))
	return s
}

// RaceSite extracts the two innermost polyform frames of the first report (stable violation site).
func RaceSite(report string) (site, summary string) {
	var frames []string
	for _, ln := range strings.Split(report, "\n") {
		ln = strings.TrimSpace(ln)
		if strings.HasPrefix(ln, "github.com/EliCDavis/polyform/") && strings.HasSuffix(ln, ")") == true {
			f := strings.TrimPrefix(ln, "github.com/EliCDavis/polyform/")
			if i := strings.LastIndex(f, "("); i > 0 {
				f = f[:i]
			}
			if strings.HasPrefix(f, "verifrt/") {
				continue
			}
			frames = append(frames, f)
		}
		if strings.HasPrefix(ln, "Goroutine ") && len(frames) >= 2 {
			break
		}
	}
	// first frame after "Write at"/"Read at" and first after "Previous ..."
	var a, b string
	sec := 0
	for _, ln := range strings.Split(report, "\n") {
		t := strings.TrimSpace(ln)
		switch {
		case strings.HasPrefix(t, "Write at"), strings.HasPrefix(t, "Read at"):
			sec = 1
		case strings.HasPrefix(t, "Previous write at"), strings.HasPrefix(t, "Previous read at"):
			sec = 2
		case strings.HasPrefix(t, "Goroutine "):
			sec = 3
		case strings.HasPrefix(t, "github.com/EliCDavis/polyform/") && !strings.Contains(t, "/verifrt/"):
			f := strings.TrimPrefix(t, "github.com/EliCDavis/polyform/")
			if i := strings.LastIndex(f, "("); i > 0 {
				f = f[:i]
			}
			f = stripClosure(f)
			if sec == 1 && a == "" {
				a = f
			}
			if sec == 2 && b == "" {
				b = f
			}
		}
	}
	if a > b {
		a, b = b, a
	}
	site = a + " / " + b
	lines := strings.Split(report, "\n")
	if len(lines) > 40 {
		lines = lines[:40]
	}
	return site, strings.Join(lines, "\n")
}

func stripClosure(f string) string {
	// modeling.Mesh.ScanFloat3AttributeParallelWithPoolSize.func1 -> …WithPoolSize
	for {
		i := strings.LastIndex(f, ".func")
		if i < 0 {
			break
		}
		rest := f[i+5:]
		ok := len(rest) > 0
		for _, c := range rest {
			if (c < '0' || c > '9') && c != '.' {
				ok = false
			}
		}
		if !ok {
			break
		}
		f = f[:i]
	}
	return strings.TrimSuffix(f, ".gowrap1")
}

// Scenario is one closed system to explore.
type Scenario struct {
	Name string
	// Make builds a fresh instance and returns the root body and the per-execution oracle. The oracle
	// returns a short outcome label and, for a failure, a violation (Case is filled in by Explore).
	Make func() (root func(), oracle func(x vsched.Exec) (outcome string, v *core.Violation))
	// Bounds to complete in turn (e.g. 0,1,2; -1 = unbounded).
	Bounds    []int
	MaxPoints int
	// Case describes the scenario for replay (JSON-able).
	Case any
	// Site is the library entry point named in deadlock / panic / oracle violations.
	Site string
	// Whole: the scenario is owned entirely by the calling shard (the caller shards by scenario).
	Whole bool
	// Scope, when set, is the evidence scope the executions are counted under (a family of
	// scenarios); the scenario's own name is then only kept in samples and violation cases.
	Scope string
}

// ReplayCase is what a schedule violation records.
type ReplayCase struct {
	Scenario any   `json:"scenario"`
	Choices  []int `json:"choices"`
	Bound    int   `json:"bound"`
}

// Explore runs the scenario over its bounds, feeding the check context.
func Explore(c *core.Ctx, rl *RaceLog, sc Scenario) {
	for _, b := range sc.Bounds {
		var st vsched.Stats
		outcomes := map[string]bool{}
		scopeName := sc.Name
		if sc.Scope != "" {
			scopeName = sc.Scope
		}
		scope := fmt.Sprintf("%s/bound=%s", scopeName, boundName(b))
		vsched.Explore(func() (func(), func(vsched.Exec, bool)) {
			root, oracle := sc.Make()
			return root, func(x vsched.Exec, owned bool) {
				race := rl.New()
				if !owned {
					return
				}
				c.Trace()
				c.Transition()
				rc := ReplayCase{Scenario: sc.Case, Choices: x.Choices(), Bound: b}
				if x.Unsupported != "" {
					c.HarnessError("%s: unsupported construct under the scheduler: %s", sc.Name, x.Unsupported)
					c.Eval(scope, "unsupported")
					return
				}
				outcome, v := "", (*core.Violation)(nil)
				switch {
				case x.Deadlock:
					outcome = "deadlock"
					v = &core.Violation{Site: sc.Site, Clause: "no interleaving deadlocks", Class: "deadlock", Detail: fmt.Sprintf("blocked: %v schedule: %s", x.Blocked, x.Trace())}
				case len(x.Panics) > 0:
					outcome = "panic"
					v = &core.Violation{Site: sc.Site, Clause: "no interleaving crashes", Class: "panic", Detail: fmt.Sprintf("%v schedule: %s", x.Panics, x.Trace())}
				default:
					outcome, v = oracle(x)
				}
				if race != "" {
					site, sum := RaceSite(race)
					outcome += "+race"
					c.Violate(core.Violation{Site: site, Clause: "free of data races on every schedule", Class: "race", Detail: sum + "\nschedule: " + x.Trace(), Case: rc})
				}
				if v != nil {
					v.Case = rc
					if !strings.Contains(v.Detail, "schedule:") {
						v.Detail += " schedule: " + x.Trace()
					}
					c.Violate(*v)
				}
				c.Eval(scope, outcome)
				outcomes[outcome] = true
				c.NontrivialHash(core.Hash(sc.Name, fmt.Sprint(x.Choices())))
				c.Sample(scopeName, map[string]any{"scenario": sc.Case, "bound": b, "schedule": x.Trace(), "outcome": outcome})
			}
		}, shardOpts(c, sc, b), &st)
		c.State()
		if st.Divergences > 0 {
			c.HarnessError("%s: %d executions diverged from their recorded prefix (%s): the system under test keeps state between executions or has nondeterminism the harness does not own", sc.Name, st.Divergences, st.LastDivergence)
		}
		if st.Truncated {
			c.Cap("%s: bound %s not completed (deadline) after %d executions", sc.Name, boundName(b), st.Execs)
			return
		}
		if sc.Scope == "" {
			c.Bound(scope, map[string]any{"executions_this_shard": st.Execs, "max_points": st.MaxPoints, "threads": st.MaxThreads})
		}
	}
}

func shardOpts(c *core.Ctx, sc Scenario, b int) vsched.Options {
	o := vsched.Options{Bound: b, MaxPoints: sc.MaxPoints, Shard: c.Shard, NShards: c.NShards, Stop: c.Expired}
	if sc.Whole {
		o.Shard, o.NShards = 0, 1
	}
	return o
}

func boundName(b int) string {
	if b < 0 {
		return "unbounded"
	}
	return fmt.Sprint(b)
}

// Replay re-executes one recorded schedule of a scenario.
func Replay(c *core.Ctx, rl *RaceLog, sc Scenario, choices []int, bound int) {
	root, oracle := sc.Make()
	var x vsched.Exec
	func() {
		defer func() {
			if r := recover(); r != nil {
				if d, ok := r.(vsched.ReplayDivergence); ok {
					c.HarnessError("replay: %s", d.Msg)
					return
				}
				panic(r)
			}
		}()
		x = vsched.Run(root, choices, sc.MaxPoints)
	}()
	race := rl.New()
	rc := ReplayCase{Scenario: sc.Case, Choices: choices, Bound: bound}
	var v *core.Violation
	switch {
	case x.Deadlock:
		v = &core.Violation{Site: sc.Site, Clause: "no interleaving deadlocks", Class: "deadlock", Detail: fmt.Sprint(x.Blocked)}
	case len(x.Panics) > 0:
		v = &core.Violation{Site: sc.Site, Clause: "no interleaving crashes", Class: "panic", Detail: fmt.Sprint(x.Panics)}
	default:
		_, v = oracle(x)
	}
	if race != "" {
		site, sum := RaceSite(race)
		c.Violate(core.Violation{Site: site, Clause: "free of data races on every schedule", Class: "race", Detail: sum, Case: rc})
	}
	if v != nil {
		v.Case = rc
		c.Violate(*v)
	}
	c.Eval("replay", "done")
}
