package schedlib

import (
	"fmt"

	"github.com/EliCDavis/polyform/verifrt/vsched"
	"github.com/EliCDavis/polyform/verifrt/vsync"
)

// SelfTest proves, inside every run, that the engine sees what it claims to see:
//  1. an unsynchronised counter shared by two controlled threads IS reported by ThreadSanitizer
//     (the scheduler's hand-offs are invisible to it),
//  2. the same counter under a (wrapped, real) mutex is silent on every schedule and never loses an update,
//  3. a check-then-act lost update is found by the functional oracle with one preemption and not with zero,
//  4. replaying one recorded schedule twice gives the identical trace.
//
// Returns "" when all four hold.
func SelfTest(rl *RaceLog) string {
	rl.New()
	// 1. racy toy
	if rl.On {
		x := 0
		vsched.Explore(func() (func(), func(vsched.Exec, bool)) {
			x = 0
			return func() {
				var wg vsync.WaitGroup
				wg.Add(2)
				for i := 0; i < 2; i++ {
					vsched.Go(func() { defer wg.Done(); x++ })
				}
				wg.Wait()
			}, func(vsched.Exec, bool) {}
		}, vsched.Options{Bound: 1, MaxPoints: 100}, &vsched.Stats{})
		if rl.New() == "" {
			return "an unsynchronised shared counter was NOT reported by the race detector under the scheduler"
		}
		_ = x
	}
	// 2. locked toy
	{
		var st vsched.Stats
		bad := ""
		vsched.Explore(func() (func(), func(vsched.Exec, bool)) {
			x := 0
			var mu vsync.Mutex
			return func() {
					var wg vsync.WaitGroup
					wg.Add(2)
					for i := 0; i < 2; i++ {
						vsched.Go(func() { defer wg.Done(); mu.Lock(); x++; mu.Unlock() })
					}
					wg.Wait()
				}, func(e vsched.Exec, _ bool) {
					if e.Deadlock || x != 2 {
						bad = fmt.Sprintf("locked counter ended at %d (deadlock=%v) on schedule %s", x, e.Deadlock, e.Trace())
					}
				}
		}, vsched.Options{Bound: -1, MaxPoints: 100}, &st)
		if bad != "" {
			return bad
		}
		if st.Execs < 6 {
			return fmt.Sprintf("locked toy explored only %d schedules", st.Execs)
		}
		if r := rl.New(); r != "" {
			return "a correctly locked counter was reported as a race: " + r[:min(len(r), 400)]
		}
	}
	// 3. lost update
	for _, bound := range []int{0, 1} {
		lost := false
		vsched.Explore(func() (func(), func(vsched.Exec, bool)) {
			x := 0
			var mu vsync.Mutex
			return func() {
					var wg vsync.WaitGroup
					wg.Add(2)
					for i := 0; i < 2; i++ {
						vsched.Go(func() {
							defer wg.Done()
							mu.Lock()
							t := x
							mu.Unlock()
							mu.Lock()
							x = t + 1
							mu.Unlock()
						})
					}
					wg.Wait()
				}, func(e vsched.Exec, _ bool) {
					if x != 2 {
						lost = true
					}
				}
		}, vsched.Options{Bound: bound, MaxPoints: 100}, &vsched.Stats{})
		if bound == 0 && lost {
			return "lost update observed without any preemption"
		}
		if bound == 1 && !lost {
			return "lost update NOT found with one preemption"
		}
	}
	// 4. replay determinism
	{
		mk := func() func() {
			var mu vsync.Mutex
			x := 0
			return func() {
				var wg vsync.WaitGroup
				wg.Add(2)
				for i := 0; i < 2; i++ {
					vsched.Go(func() { defer wg.Done(); mu.Lock(); x++; mu.Unlock() })
				}
				wg.Wait()
			}
		}
		a := vsched.Run(mk(), []int{0, 0, 1, 0, 1}, 100)
		b := vsched.Run(mk(), a.Choices(), 100)
		if a.Trace() != b.Trace() {
			return "replaying a recorded schedule gave a different trace: " + a.Trace() + " vs " + b.Trace()
		}
	}
	rl.New()
	return ""
}
